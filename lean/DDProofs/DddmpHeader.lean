/-
  DDProofs.DddmpHeader — `evalFile` identifies the variable of a node line through the two
  tables `_parse_header` builds (`info2permid`, `levels`).  These lemmas spell out, mode by
  mode, which variable that is in terms of the header lines of the file, i.e. they tie the
  specification to the FORMAT rather than to the loader's tables:

  * `.varinfo 3`: the `info` column is the variable's name;
  * `.varinfo 0`: `info` is an entry `ids[j]`; `.varinfo 1`: `info` is an entry `permids[j]`;
    the variable is `orderedvarnames[permids[j]]` when `.orderedvarnames` is present,
    else `suppvarnames[j]`.

  Files with neither `.orderedvarnames` nor `.suppvarnames` have no names; the loader
  invents the `int` `permids[L]` as the name of level `L` (`levels_nameless_eq`).
-/
import DDProofs.DddmpProofs
open Std

namespace DD

theorem enumDict_eq {l : List DddmpTok} (h : l.Nodup) :
    enumDict l = l.zipIdx.map fun p => (p.1, (p.2 : Int)) := by
  apply dictOf_nodup
  rw [List.map_map]
  have : (l.zipIdx.map ((fun x => x.1) ∘ fun p => (p.1, (p.2 : Int)))) = l := by
    conv => rhs; rw [← List.zipIdx_map_fst 0 l]
    rfl
  rw [this]; exact h

theorem enumDict_mem {l : List DddmpTok} (h : l.Nodup) {k : Nat} {var : DddmpTok} (hk : l[k]? = some var) :
    (var, (k : Int)) ∈ enumDict l := by
  rw [enumDict_eq h]
  exact List.mem_map.mpr ⟨(var, k), List.mk_mem_zipIdx_iff_getElem?.mpr hk, rfl⟩

theorem enumDict_keys {l : List DddmpTok} (h : l.Nodup) : ((enumDict l).map (·.1)).Nodup := by
  rw [enumDict_eq h, List.map_map]
  have : (l.zipIdx.map ((fun x => x.1) ∘ fun p => (p.1, (p.2 : Int)))) = l := by
    conv => rhs; rw [← List.zipIdx_map_fst 0 l]
    rfl
  rw [this]; exact h

theorem enumDict_vals {l : List DddmpTok} (h : l.Nodup) : ((enumDict l).map (·.2)).Nodup := by
  rw [enumDict_eq h, List.map_map]
  have : (l.zipIdx.map ((fun x => x.2) ∘ fun p => (p.1, (p.2 : Int)))) =
      (List.range' 0 l.length).map (fun (i : Nat) => (i : Int)) := by
    rw [← List.zipIdx_map_snd 0 l, List.map_map]
    rfl
  rw [this]
  exact nodup_map_of_inj_on _ _ (fun a _ b _ h => by omega) (List.nodup_range' (step := 1))

theorem enumDict_get {l : List DddmpTok} (h : l.Nodup) {k : Nat} {var : DddmpTok} (hk : l[k]? = some var) :
    dictGet (enumDict l) var = some (k : Int) :=
  dictGet_of_mem _ (enumDict_keys h) (enumDict_mem h hk)

theorem dddmpInfo2permid_inv {f : DddmpFile} {ids permids : List Int} {i2p : List (DddmpTok × Int)}
    (h : dddmpInfo2permid f ids permids = .ok i2p) :
    ∃ t nv, dddmpInfoTable f ids permids = .ok t ∧ f.nvars = some nv ∧
      i2p = dictSet t (.str "T") (nv + 1) := by
  unfold dddmpInfo2permid at h
  split at h
  · cases h
  · next t ht =>
    split at h
    · cases h
    · next nv hnv =>
      simp only [Except.ok.injEq] at h
      exact ⟨t, nv, ht, hnv, h.symm⟩

/-- lookups in `info2permid` other than `'T'` are lookups in the table of the mode -/
theorem i2p_get_of_table {t : List (DddmpTok × Int)} {nv : Int} {info : DddmpTok} (hne : info ≠ .str "T") :
    dictGet (dictSet t (.str "T") (nv + 1)) info = dictGet t info :=
  dictGet_dictSet_ne _ _ _ _ hne

section Modes
variable {f : DddmpFile} {i2p levels : List (DddmpTok × Int)} {roots : List Int}

/-- `.varinfo 3`: a node line labelled with a name of `.orderedvarnames` is a node of that
variable -/
theorem dddmpVarOf_varinfo3 (h : dddmpHeader f = .ok (i2p, levels, roots))
    (hv : f.varinfo = some 3) {ov : List DddmpTok} (ho : f.orderedvarnames = some ov) (hnd : ov.Nodup)
    {k : Nat} {var : DddmpTok} (hk : ov[k]? = some var) (hT : var ≠ .str "T") :
    dddmpVarOf i2p levels var = some var := by
  obtain ⟨ids, permids, _, _, _, _, hI, hL, _⟩ := dddmpHeader_inv h
  obtain ⟨t, nv, ht, _, rfl⟩ := dddmpInfo2permid_inv hI
  have ht' : t = enumDict ov := by
    simp [dddmpInfoTable, hv, ho, pure, Except.pure] at ht
    exact ht.symm
  have hL' : levels = enumDict ov := by
    simp [dddmpLevels, ho] at hL
    exact hL.symm
  subst ht' hL'
  exact dddmpVarOf_of_mem (enumDict_vals hnd)
    (by rw [i2p_get_of_table hT]; exact enumDict_get hnd hk) (enumDict_mem hnd hk)

/-- the table of `.varinfo 0`: `ids[j] ↦ permids[j]` -/
theorem i2p_varinfo0 (h : dddmpHeader f = .ok (i2p, levels, roots)) (hv : f.varinfo = some 0)
    {ids permids : List Int} (hi : f.ids = some ids) (hp : f.permids = some permids)
    (hnd : ids.Nodup) (hlen : ids.length = permids.length)
    {j : Nat} {i k : Int} (hji : ids[j]? = some i) (hjk : permids[j]? = some k) :
    dictGet i2p (.num i) = some k := by
  obtain ⟨ids', permids', _, hi', hp', _, hI, _, _⟩ := dddmpHeader_inv h
  rw [hi] at hi'; rw [hp] at hp'
  cases hi'; cases hp'
  obtain ⟨t, nv, ht, _, rfl⟩ := dddmpInfo2permid_inv hI
  have ht' : t = dictOf ((ids.zip permids).map fun p => (DddmpTok.num p.1, p.2)) := by
    simp [dddmpInfoTable, hv, pure, Except.pure] at ht
    exact ht.symm
  subst ht'
  rw [i2p_get_of_table (by simp)]
  have hkeys : (((ids.zip permids).map fun p => (DddmpTok.num p.1, p.2)).map (·.1)).Nodup := by
    rw [List.map_map]
    have : (ids.zip permids).map ((fun x => x.1) ∘ fun p => (DddmpTok.num p.1, p.2)) =
        ((ids.zip permids).map Prod.fst).map DddmpTok.num := by
      rw [List.map_map]; rfl
    rw [this, List.map_fst_zip (by omega)]
    exact nodup_map_of_inj_on _ _ (fun a _ b _ h => by cases h; rfl) hnd
  rw [dictOf_nodup _ hkeys]
  apply dictGet_of_mem _ hkeys
  refine List.mem_map.mpr ⟨(i, k), ?_, rfl⟩
  exact List.mem_of_getElem? (List.getElem?_zip_eq_some.mpr ⟨hji, hjk⟩)

/-- the table of `.varinfo 1`: `permids[j] ↦ permids[j]` -/
theorem i2p_varinfo1 (h : dddmpHeader f = .ok (i2p, levels, roots)) (hv : f.varinfo = some 1)
    {permids : List Int} (hp : f.permids = some permids) (hnd : permids.Nodup)
    {k : Int} (hk : k ∈ permids) :
    dictGet i2p (.num k) = some k := by
  obtain ⟨_, permids', _, _, hp', _, hI, _, _⟩ := dddmpHeader_inv h
  rw [hp] at hp'
  cases hp'
  obtain ⟨t, nv, ht, _, rfl⟩ := dddmpInfo2permid_inv hI
  have ht' : t = dictOf (permids.map fun k => (DddmpTok.num k, k)) := by
    simp [dddmpInfoTable, hv, pure, Except.pure] at ht
    exact ht.symm
  subst ht'
  rw [i2p_get_of_table (by simp)]
  have hkeys : ((permids.map fun k => (DddmpTok.num k, k)).map (·.1)).Nodup := by
    rw [List.map_map]
    exact nodup_map_of_inj_on _ _ (fun a _ b _ h => by
      simp only [Function.comp] at h; cases h; rfl) hnd
  rw [dictOf_nodup _ hkeys]
  exact dictGet_of_mem _ hkeys (List.mem_map.mpr ⟨k, hk, rfl⟩)

/-- with `.orderedvarnames`: the variable at level `k` is `orderedvarnames[k]` -/
theorem levels_ordered (h : dddmpHeader f = .ok (i2p, levels, roots))
    {ov : List DddmpTok} (ho : f.orderedvarnames = some ov) (hnd : ov.Nodup)
    {k : Nat} {var : DddmpTok} (hk : ov[k]? = some var) :
    (var, (k : Int)) ∈ levels ∧ (levels.map (·.2)).Nodup := by
  obtain ⟨_, permids, _, _, _, _, _, hL, _⟩ := dddmpHeader_inv h
  have hL' : levels = enumDict ov := by
    simp [dddmpLevels, ho] at hL
    exact hL.symm
  subst hL'
  exact ⟨enumDict_mem hnd hk, enumDict_vals hnd⟩

theorem levels_ordered_eq (h : dddmpHeader f = .ok (i2p, levels, roots))
    {ov : List DddmpTok} (ho : f.orderedvarnames = some ov) : levels = enumDict ov := by
  obtain ⟨_, permids, _, _, _, _, _, hL, _⟩ := dddmpHeader_inv h
  simp [dddmpLevels, ho] at hL
  exact hL.symm

/-- without any list of names: the loader's `levels` table is the one `.orderedvarnames` would
give for the names `permids[0], permids[1], …` (Python `int`s) -/
theorem levels_nameless_eq (h : dddmpHeader f = .ok (i2p, levels, roots))
    (ho : f.orderedvarnames = none) (hs : f.suppvarnames = none)
    {permids : List Int} (hp : f.permids = some permids) :
    levels = enumDict (permids.map DddmpTok.num) := by
  obtain ⟨_, permids', _, _, hp', _, _, hL, _⟩ := dddmpHeader_inv h
  rw [hp] at hp'
  cases hp'
  simp only [dddmpLevels, ho, hs, Except.ok.injEq] at hL
  rw [← hL, enumDict, List.zipIdx_map, List.map_map]
  rfl

/-- without `.orderedvarnames`: the variable at level `permids[j]` is `suppvarnames[j]` -/
theorem levels_supp (h : dddmpHeader f = .ok (i2p, levels, roots))
    (ho : f.orderedvarnames = none) {sv : List DddmpTok} (hs : f.suppvarnames = some sv)
    {permids : List Int} (hp : f.permids = some permids)
    (hsnd : sv.Nodup) (hpnd : permids.Nodup) (hlen : permids.length = sv.length)
    {j : Nat} {k : Int} {var : DddmpTok} (hjk : permids[j]? = some k) (hjv : sv[j]? = some var) :
    (var, k) ∈ levels ∧ (levels.map (·.2)).Nodup ∧ levels.map (·.2) = sortInts permids := by
  obtain ⟨_, permids', _, _, hp', _, _, hL, _⟩ := dddmpHeader_inv h
  rw [hp] at hp'
  cases hp'
  -- `permid2var`
  have hzk : ((permids.zip sv).map (·.1)).Nodup := by
    rw [List.map_fst_zip (by omega)]; exact hpnd
  have hz : dictOf (permids.zip sv) = permids.zip sv := dictOf_nodup _ hzk
  have hsp := sortInts_perm permids
  -- the variable of a level
  let vo : Int → DddmpTok := fun k => (dictGet (permids.zip sv) k).getD default
  have hvo : ∀ k, k ∈ permids → ∃ (j : Nat) (var : DddmpTok), permids[j]? = some k ∧ sv[j]? = some var ∧
      dictGet (permids.zip sv) k = some var := by
    intro k hk
    obtain ⟨j, hj⟩ := List.getElem?_of_mem hk
    have hjl : j < sv.length := by
      have := (List.getElem?_eq_some_iff.mp hj).1
      omega
    refine ⟨j, sv[j], hj, List.getElem?_eq_getElem hjl, ?_⟩
    apply dictGet_of_mem _ hzk
    exact List.mem_of_getElem? (List.getElem?_zip_eq_some.mpr ⟨hj, List.getElem?_eq_getElem hjl⟩)
  have hm : (sortInts permids).mapM (dddmpLevelItem (permids.zip sv)) =
      .ok ((sortInts permids).map fun k => (vo k, k)) := by
    apply dddmp_mapM_ok
    intro k hk
    obtain ⟨_, var, _, _, hg⟩ := hvo k (hsp.mem_iff.mp hk)
    simp [dddmpLevelItem, vo, hg]
  have hL' : levels = dictOf ((sortInts permids).map fun k => (vo k, k)) := by
    simp [dddmpLevels, ho, hs, hz, hm] at hL
    exact hL.symm
  -- names of the levels are distinct
  have hvoinj : ∀ a ∈ sortInts permids, ∀ b ∈ sortInts permids, vo a = vo b → a = b := by
    intro a ha b hb hab
    obtain ⟨ja, va, hja, hva, hga⟩ := hvo a (hsp.mem_iff.mp ha)
    obtain ⟨jb, vb, hjb, hvb, hgb⟩ := hvo b (hsp.mem_iff.mp hb)
    have e : va = vb := by simpa [vo, hga, hgb] using hab
    subst e
    -- `sv` has no duplicates: same position
    have hjj : ja = jb := nodup_getElem?_inj hsnd hva hvb
    subst hjj
    rw [hja] at hjb
    exact Option.some.inj hjb
  have hkeys : (((sortInts permids).map fun k => (vo k, k)).map (·.1)).Nodup := by
    rw [List.map_map]
    exact nodup_map_of_inj_on _ _ hvoinj (hsp.nodup_iff.mpr hpnd)
  rw [hL', dictOf_nodup _ hkeys]
  constructor
  · refine List.mem_map.mpr ⟨k, hsp.mem_iff.mpr (List.mem_of_getElem? hjk), ?_⟩
    obtain ⟨j', var', hj', hv', hg⟩ := hvo k (List.mem_of_getElem? hjk)
    have hjj : j' = j := nodup_getElem?_inj hpnd hj' hjk
    subst hjj
    rw [hjv] at hv'
    cases hv'
    simp [vo, hg]
  · have : ((sortInts permids).map fun k => (vo k, k)).map (·.2) = sortInts permids := by
      rw [List.map_map]
      simp [Function.comp_def]
    rw [this]
    exact ⟨hsp.nodup_iff.mpr hpnd, rfl⟩

/-- `.varinfo 0` with `.orderedvarnames`: the line labelled `ids[j]` is a node of the
variable `orderedvarnames[permids[j]]` -/
theorem dddmpVarOf_varinfo0_ordered (h : dddmpHeader f = .ok (i2p, levels, roots))
    (hv : f.varinfo = some 0) {ids permids : List Int} (hi : f.ids = some ids)
    (hp : f.permids = some permids) (hnd : ids.Nodup) (hlen : ids.length = permids.length)
    {ov : List DddmpTok} (ho : f.orderedvarnames = some ov) (hond : ov.Nodup)
    {j k : Nat} {i : Int} {var : DddmpTok} (hji : ids[j]? = some i) (hjk : permids[j]? = some (k : Int))
    (hk : ov[k]? = some var) :
    dddmpVarOf i2p levels (.num i) = some var := by
  obtain ⟨hm, hvals⟩ := levels_ordered h ho hond hk
  exact dddmpVarOf_of_mem hvals (i2p_varinfo0 h hv hi hp hnd hlen hji hjk) hm

/-- `.varinfo 1` with `.orderedvarnames`: the line labelled `permids[j] = k` is a node of the
variable `orderedvarnames[k]` -/
theorem dddmpVarOf_varinfo1_ordered (h : dddmpHeader f = .ok (i2p, levels, roots))
    (hv : f.varinfo = some 1) {permids : List Int} (hp : f.permids = some permids)
    (hnd : permids.Nodup) {ov : List DddmpTok} (ho : f.orderedvarnames = some ov) (hond : ov.Nodup)
    {k : Nat} {var : DddmpTok} (hkp : (k : Int) ∈ permids) (hk : ov[k]? = some var) :
    dddmpVarOf i2p levels (.num (k : Int)) = some var := by
  obtain ⟨hm, hvals⟩ := levels_ordered h ho hond hk
  exact dddmpVarOf_of_mem hvals (i2p_varinfo1 h hv hp hnd hkp) hm

/-- `.varinfo 0` without `.orderedvarnames`: the line labelled `ids[j]` is a node of the
variable `suppvarnames[j]` -/
theorem dddmpVarOf_varinfo0_supp (h : dddmpHeader f = .ok (i2p, levels, roots))
    (hv : f.varinfo = some 0) {ids permids : List Int} (hi : f.ids = some ids)
    (hp : f.permids = some permids) (hnd : ids.Nodup) (hpnd : permids.Nodup)
    (hlen : ids.length = permids.length)
    (ho : f.orderedvarnames = none) {sv : List DddmpTok} (hs : f.suppvarnames = some sv)
    (hsnd : sv.Nodup) (hlen' : permids.length = sv.length)
    {j : Nat} {i k : Int} {var : DddmpTok} (hji : ids[j]? = some i) (hjk : permids[j]? = some k)
    (hjv : sv[j]? = some var) :
    dddmpVarOf i2p levels (.num i) = some var := by
  obtain ⟨hm, hvals, -⟩ := levels_supp h ho hs hp hsnd hpnd hlen' hjk hjv
  exact dddmpVarOf_of_mem hvals (i2p_varinfo0 h hv hi hp hnd hlen hji hjk) hm

/-- `.varinfo 1` without `.orderedvarnames`: the line labelled `permids[j]` is a node of the
variable `suppvarnames[j]` -/
theorem dddmpVarOf_varinfo1_supp (h : dddmpHeader f = .ok (i2p, levels, roots))
    (hv : f.varinfo = some 1) {permids : List Int} (hp : f.permids = some permids)
    (hpnd : permids.Nodup)
    (ho : f.orderedvarnames = none) {sv : List DddmpTok} (hs : f.suppvarnames = some sv)
    (hsnd : sv.Nodup) (hlen' : permids.length = sv.length)
    {j : Nat} {k : Int} {var : DddmpTok} (hjk : permids[j]? = some k) (hjv : sv[j]? = some var) :
    dddmpVarOf i2p levels (.num k) = some var := by
  obtain ⟨hm, hvals, -⟩ := levels_supp h ho hs hp hsnd hpnd hlen' hjk hjv
  exact dddmpVarOf_of_mem hvals (i2p_varinfo1 h hv hp hpnd (List.mem_of_getElem? hjk)) hm

end Modes

end DD
