/-
  DDProofs.ImageWrap — the module-level functions `image` and `preimage` (argument mapping,
  precondition checks, the call of `_image` with an empty memo), reordering not enabled.
  `image` / `preimage` turn their arguments into variable names (`_image_args_by_name`) and run
  the decorated bodies `_image_of` / `_preimage_of`, which call the decorated `BDD.ite` and
  `find_or_add` from inside `_image`.  With the order maps inverse bijections (`VarsBij`) the
  detour through the names returns the same levels, so the theorems read as before.
-/
import DDProofs.Image
import DDProofs.SatSupport
import DDProofs.SatPick
import DDProofs.LetCopy
open Std

namespace DD

/-! ### support: syntactic and semantic -/

/-- in a table without duplicate nodes every level of the syntactic support matters -/
theorem InSupp.dependsOn {t : Tbl} (hw : WFU t) {u : Int} {i : Nat} (h : InSupp t u i) :
    dependsOn t u i := by
  have hW := hw.toWF
  induction h with
  | here h1 hn => exact node_depends_on_own_level hw h1 hn
  | lo h1 hn h ih =>
    have h2 := h.ge hW
    have h3 := hW.lo_lt _ _ hn
    exact (dependsOn_node hW h1 hn (by omega)).mpr (Or.inl ih)
  | hi h1 hn h ih =>
    have h2 := h.ge hW
    have h3 := hW.hi_lt _ _ hn
    exact (dependsOn_node hW h1 hn (by omega)).mpr (Or.inr ih)

/-! ### `var_at_level`, `_all_adjacent`, `_assert_valid_rename` -/

theorem varAtLevel_ok_img (m : Mgr) (i : Nat) (s : String) (h : m.tbl.l2v[i]? = some s) :
    varAtLevel (i : Int) m = (.ok s, m) := by
  have hnn : ¬ ((i : Int) < 0) := by omega
  simp [varAtLevel, bind, M.bind', M.get, M.ofOption, pure, M.pure', hnn, h]

/-- `var_at_level` of a declared level succeeds and leaves the manager alone -/
theorem varAtLevel_declared (m : Mgr) (hV : VarsBij m.tbl) (i : Int) (h0 : 0 ≤ i)
    (hi : i < (m.nvars : Int)) : ∃ s, varAtLevel i m = (.ok s, m) := by
  obtain ⟨k, rfl⟩ := Int.eq_ofNat_of_zero_le h0
  obtain ⟨s, hs⟩ := hV.onto k (by have : m.nvars = m.tbl.nvars := rfl; omega)
  exact ⟨s, varAtLevel_ok_img m k s (hV.v2l _ _ hs)⟩

/-! ### a renaming all of whose keys and values are levels -/

/-- some key or value of the resolved renaming is not an `int` (an undeclared name) -/
def renameNonLevel (rn : List (Key × Key)) : Bool :=
  rn.any fun (k, v) => match k, v with
    | .lvl _, .lvl _ => false
    | _, _ => true

theorem intPairs_map_lvl (l : List (Int × Int)) :
    intPairs (l.map fun p => (Key.lvl p.1, Key.lvl p.2)) = l := by
  induction l with
  | nil => rfl
  | cons p l ih =>
    unfold intPairs at ih ⊢
    rw [List.map_cons, List.filterMap_cons]
    simp only [ih]

theorem badKeys_map_lvl (l : List (Int × Int)) :
    badKeys (l.map fun p => (Key.lvl p.1, Key.lvl p.2)) = [] := by
  induction l with
  | nil => rfl
  | cons p l ih =>
    unfold badKeys at ih ⊢
    rw [List.map_cons, List.filterMap_cons]
    simp only [ih]

theorem renameValues_map_lvl (l : List (Int × Int)) :
    renameValues (l.map fun p => (Key.lvl p.1, Key.lvl p.2)) = l.map (·.2) := by
  induction l with
  | nil => rfl
  | cons p l ih =>
    unfold renameValues at ih ⊢
    rw [List.map_cons, List.filterMap_cons]
    simp only [ih, List.map_cons]

/-- a renaming without names is the list of its level pairs -/
theorem eq_map_of_nonLevel : ∀ rn : List (Key × Key), renameNonLevel rn = false →
    rn = (intPairs rn).map fun p => (Key.lvl p.1, Key.lvl p.2) := by
  intro rn
  induction rn with
  | nil => intro _; rfl
  | cons x rest ih =>
    intro h
    obtain ⟨k, v⟩ := x
    unfold renameNonLevel at h
    rw [List.any_cons, Bool.or_eq_false_iff] at h
    have hr := ih h.2
    cases k with
    | name s => simp at h
    | lvl a =>
      cases v with
      | name s => simp at h
      | lvl b =>
        have : intPairs ((Key.lvl a, Key.lvl b) :: rest) = (a, b) :: intPairs rest := by
          unfold intPairs
          rw [List.filterMap_cons]
        rw [this, List.map_cons, ← hr]

/-- `_all_adjacent` (whose only effect is a warning that looks up two variable names) on pairs of
declared levels -/
theorem adjacentWarn_ok (m : Mgr) (hV : VarsBij m.tbl) : ∀ (l : List (Int × Int)),
    (∀ p, p ∈ l → 0 ≤ p.1 ∧ p.1 < (m.nvars : Int) ∧ 0 ≤ p.2 ∧ p.2 < (m.nvars : Int)) →
    adjacentWarn (l.map fun p => (Key.lvl p.1, Key.lvl p.2)) m = (.ok (), m) := by
  intro l
  induction l with
  | nil => intro _; rfl
  | cons p l ih =>
    intro h
    obtain ⟨k, x⟩ := p
    rw [List.map_cons]
    unfold adjacentWarn
    simp only
    by_cases hadj : (k - x).natAbs = 1
    · simp only [hadj, if_true]
      exact ih (fun p hp => h p (List.mem_cons_of_mem _ hp))
    · simp only [hadj, if_false]
      obtain ⟨h1, h2, h3, h4⟩ := h _ List.mem_cons_self
      obtain ⟨s1, e1⟩ := varAtLevel_declared m hV k h1 h2
      obtain ⟨s2, e2⟩ := varAtLevel_declared m hV x h3 h4
      simp only [e1, e2]

theorem assertValidRename_ok (m : Mgr) (hV : VarsBij m.tbl) (rn : List (Key × Key))
    (hne : rn ≠ [] → 0 < m.nvars) (hov : renameOverlap rn = false) :
    assertValidRename rn m = (.ok (), m) := by
  unfold assertValidRename
  by_cases hemp : rn.isEmpty = true
  · simp only [hemp, if_true]
  · simp only [hemp, Bool.false_eq_true, if_false]
    have hpos := hne (by intro h; subst h; simp at hemp)
    obtain ⟨s, e⟩ := varAtLevel_declared m hV 0 (by omega) (by omega)
    simp only [e, hov, Bool.false_eq_true, if_false]

/-! ### `image` -/

/-- the check "unpriming maps to qvars or outside the support of the conjunction" passes -/
theorem imageBadTargets_nil (vals : List Int) (q s1 s2 : List Nat)
    (h : ∀ x, x ∈ vals → ∀ l : Nat, x = (l : Int) → l ∈ q ∨ (l ∉ s1 ∧ l ∉ s2)) :
    imageBadTargets vals q s1 s2 = [] := by
  unfold imageBadTargets
  rw [List.filter_eq_nil_iff]
  intro l hl hp
  simp only [Bool.and_eq_true, Bool.not_eq_true', List.contains_eq_mem, decide_eq_true_eq,
    decide_eq_false_iff_not] at hp
  obtain ⟨hq, hx⟩ := hp
  rcases h _ hx l rfl with h1 | ⟨h1, h2⟩
  · exact hq h1
  · rcases List.mem_append.mp hl with h3 | h3
    · exact h1 h3
    · exact h2 h3

/-- the check fails: some rename target is in the support and not quantified -/
theorem imageBadTargets_ne_nil (vals : List Int) (q s1 s2 : List Nat)
    (l : Nat) (hl : (l : Int) ∈ vals) (hq : l ∉ q)
    (hs : l ∈ s1 ∨ l ∈ s2) : (imageBadTargets vals q s1 s2).isEmpty = false := by
  have : l ∈ imageBadTargets vals q s1 s2 := by
    unfold imageBadTargets
    rw [List.mem_filter]
    refine ⟨List.mem_append.mpr hs, ?_⟩
    simp only [Bool.and_eq_true, Bool.not_eq_true', List.contains_eq_mem, decide_eq_true_eq,
      decide_eq_false_iff_not]
    exact ⟨hq, hl⟩
  cases h : imageBadTargets vals q s1 s2 with
  | nil => rw [h] at this; cases this
  | cons _ _ => rfl

/-- the decorated body `_image_of(bdd, trans, source, rename, qvars, forall)`, reordering not enabled, ANY
variable order: `q` are the levels `_map_to_level` computes for `qvars`, the renaming is the
dictionary of level pairs that `resolveRename` (names looked up in `bdd.vars`) produces.  When
the code's own checks pass (no key is a value; every target quantified or outside the supports)
and the pairs are declared levels, the result is `rename(Q qvars. trans ∧ source)`. -/
theorem imageBody_spec (m : Mgr) (hI : Inv m) (hoff : m.lastLen = none) (hV : VarsBij m.tbl)
    (trans source : Int) (hu : m.tbl.Mem trans) (hv : m.tbl.Mem source)
    (rn : List (Key × Key)) (qvars : List Key) (fa : Bool) (q : List Nat)
    (hq : mapToLevelE m.tbl qvars = .ok q)
    (hov : renameOverlap (resolveRename m.tbl rn) = false)
    (hnl : renameNonLevel (resolveRename m.tbl rn) = false)
    (hlv : ∀ p, p ∈ intPairs (resolveRename m.tbl rn) →
      0 ≤ p.1 ∧ p.1 < (m.nvars : Int) ∧ 0 ≤ p.2 ∧ p.2 < (m.nvars : Int))
    (htg : ∀ p, p ∈ intPairs (resolveRename m.tbl rn) → ∀ l : Nat, p.2 = (l : Int) →
      l ∈ q ∨ (¬ dependsOn m.tbl trans l ∧ ¬ dependsOn m.tbl source l)) :
    ∃ r m', imageBody trans source rn qvars fa m = (.ok r, m') ∧ Inv m' ∧ Ext m.tbl m'.tbl ∧
      m'.tbl.Mem r ∧ Frame m m' ∧
      ∀ a, den m'.tbl r a = true ↔
        qsem fa q (fun b => den m.tbl trans b && den m.tbl source b)
          (fun z => a (renOf (intPairs (resolveRename m.tbl rn)) z)) := by
  have hrn := eq_map_of_nonLevel _ hnl
  generalize hpairs : intPairs (resolveRename m.tbl rn) = pairs at hlv htg hrn ⊢
  obtain ⟨s1, hs1, _, hd1⟩ := supportLevels_spec' hI.wf trans hu
  obtain ⟨s2, hs2, _, hd2⟩ := supportLevels_spec' hI.wf source hv
  have hbad : imageBadTargets (pairs.map (·.2)) q s1 s2 = [] := by
    apply imageBadTargets_nil
    intro x hx l hl
    obtain ⟨p, hp, rfl⟩ := List.mem_map.mp hx
    rcases htg p hp l hl with h | ⟨h1, h2⟩
    · exact Or.inl h
    · exact Or.inr ⟨fun h => h1 ((hd1 l).mp h), fun h => h2 ((hd2 l).mp h)⟩
  obtain ⟨r, c', m', he, h1, h2, h3, _, h5, h6⟩ := imageF_spec_image pairs q fa (renOf pairs)
    (2 * m.nvars + 4) m trans source {} hI hoff hu hv
    (fun z hz _ => ⟨renOf_eq pairs (fun p hp => (hlv p hp).2.2.1) z,
      renOf_lt pairs m.nvars (fun p hp => (hlv p hp).2.2.2) z hz⟩)
    (IMemo.empty _ _ _ _ _) (by omega)
  refine ⟨r, m', ?_, h1, h2, h5, h3, h6⟩
  unfold imageBody
  simp only [hq, hov, Bool.false_eq_true, if_false]
  rw [hrn]
  simp only [adjacentWarn_ok m hV pairs hlv, hs1, hs2, renameValues_map_lvl, hbad,
    List.isEmpty_nil, Bool.not_true, Bool.false_eq_true, if_false, intPairs_map_lvl,
    badKeys_map_lvl, he]

/-- `image` refuses (AssertionError, manager untouched) when a key of the renaming is also a
value -/
theorem imageBody_refuses_overlap (m : Mgr) (trans source : Int) (rn : List (Key × Key))
    (qvars : List Key) (fa : Bool) (q : List Nat) (hq : mapToLevelE m.tbl qvars = .ok q)
    (hov : renameOverlap (resolveRename m.tbl rn) = true) :
    imageBody trans source rn qvars fa m = (.error .assertion, m) := by
  unfold imageBody
  simp only [hq, hov, if_true]

/-- `image` refuses (AssertionError, manager untouched) when a rename target is in the support
of an operand and is not quantified -/
theorem imageBody_refuses_target (m : Mgr) (hI : Inv m) (hV : VarsBij m.tbl)
    (trans source : Int) (hu : m.tbl.Mem trans) (hv : m.tbl.Mem source)
    (rn : List (Key × Key)) (qvars : List Key) (fa : Bool) (q : List Nat)
    (hq : mapToLevelE m.tbl qvars = .ok q)
    (hov : renameOverlap (resolveRename m.tbl rn) = false)
    (hnl : renameNonLevel (resolveRename m.tbl rn) = false)
    (hlv : ∀ p, p ∈ intPairs (resolveRename m.tbl rn) →
      0 ≤ p.1 ∧ p.1 < (m.nvars : Int) ∧ 0 ≤ p.2 ∧ p.2 < (m.nvars : Int))
    (p : Int × Int) (hp : p ∈ intPairs (resolveRename m.tbl rn)) (l : Nat)
    (hl : p.2 = (l : Int)) (hlq : l ∉ q)
    (hdep : dependsOn m.tbl trans l ∨ dependsOn m.tbl source l) :
    imageBody trans source rn qvars fa m = (.error .assertion, m) := by
  have hrn := eq_map_of_nonLevel _ hnl
  generalize hpairs : intPairs (resolveRename m.tbl rn) = pairs at hlv hp hrn
  obtain ⟨s1, hs1, _, hd1⟩ := supportLevels_spec' hI.wf trans hu
  obtain ⟨s2, hs2, _, hd2⟩ := supportLevels_spec' hI.wf source hv
  have hbad := imageBadTargets_ne_nil (pairs.map (·.2)) q s1 s2 l
    (List.mem_map.mpr ⟨p, hp, hl⟩) hlq
    (hdep.elim (fun h => Or.inl ((hd1 l).mpr h)) (fun h => Or.inr ((hd2 l).mpr h)))
  unfold imageBody
  simp only [hq, hov, Bool.false_eq_true, if_false]
  rw [hrn]
  simp only [adjacentWarn_ok m hV pairs hlv, hs1, hs2, renameValues_map_lvl, hbad,
    Bool.not_false, if_true]

/-! ### `preimage` -/

/-! ### the test `fused` of `_preimage_of` -/

theorem dedup_length_le {α} [BEq α] [LawfulBEq α] : ∀ l : List α, (dedup l).length ≤ l.length := by
  intro l
  induction l with
  | nil => exact Nat.le_refl _
  | cons a l ih =>
    simp only [dedup]
    split
    · simp only [List.length_cons]; omega
    · simp only [List.length_cons]; omega

/-- `len(set(l)) == len(l)`: no repetition -/
theorem nodup_of_dedup_length {α} [BEq α] [LawfulBEq α] :
    ∀ l : List α, (dedup l).length = l.length → l.Nodup := by
  intro l
  induction l with
  | nil => intro _; exact List.nodup_nil
  | cons a l ih =>
    intro h
    simp only [dedup] at h
    have hle := dedup_length_le l
    split at h
    · simp only [List.length_cons] at h; omega
    · next hc =>
      simp only [List.length_cons] at h
      have hnd := ih (by omega)
      have ha : a ∉ l := by
        intro hm
        apply hc
        simpa using (mem_dedup.mpr hm)
      exact List.nodup_cons.mpr ⟨ha, hnd⟩

theorem nodup_map_inj {α β} (f : α → β) : ∀ l : List α, (l.map f).Nodup →
    ∀ x, x ∈ l → ∀ y, y ∈ l → f x = f y → x = y := by
  intro l
  induction l with
  | nil => intro _ x hx; cases hx
  | cons a l ih =>
    intro h x hx y hy he
    rw [List.map_cons, List.nodup_cons] at h
    rcases List.mem_cons.mp hx with rfl | hx'
    · rcases List.mem_cons.mp hy with rfl | hy'
      · rfl
      · exact absurd (List.mem_map.mpr ⟨y, hy', he.symm⟩) h.1
    · rcases List.mem_cons.mp hy with rfl | hy'
      · exact absurd (List.mem_map.mpr ⟨x, hx', he⟩) h.1
      · exact ih h.2 x hx' y hy' he

theorem mem_intPairs {rn : List (Key × Key)} {p : Int × Int} (h : p ∈ intPairs rn) :
    (Key.lvl p.1, Key.lvl p.2) ∈ rn := by
  unfold intPairs at h
  obtain ⟨x, hx, he⟩ := List.mem_filterMap.mp h
  obtain ⟨k, v⟩ := x
  cases k with
  | name s => simp at he
  | lvl a =>
    cases v with
    | name s => simp at he
    | lvl b =>
      simp only [Option.some.injEq] at he
      subst he
      exact hx

/-- what the test `fused` says when it holds: every level pair adjacent, no two keys with the
same value, no value in the support of the target -/
theorem preimageFused_true {t : Tbl} {rn : List (Key × Key)} {target : Int}
    (h : preimageFused t rn target = .ok true) :
    (∀ p, p ∈ intPairs rn → (p.1 - p.2).natAbs = 1) ∧
    (∀ p p', p ∈ intPairs rn → p' ∈ intPairs rn → p.2 = p'.2 → p.1 = p'.1) ∧
    ∃ s, supportLevels t target = .ok s ∧
      ∀ p, p ∈ intPairs rn → ∀ l : Nat, p.2 = (l : Int) → l ∉ s := by
  unfold preimageFused at h
  by_cases hn : renameNeighbors rn = true
  · simp only [hn, Bool.not_true, Bool.false_eq_true, if_false] at h
    by_cases hd : ((dedup (rn.map (·.2))).length == rn.length) = true
    · simp only [hd, Bool.not_true, Bool.false_eq_true, if_false] at h
      cases hs : supportLevels t target with
      | error e => rw [hs] at h; cases h
      | ok s =>
        rw [hs] at h
        simp only [Except.ok.injEq] at h
        have hnd : (rn.map (·.2)).Nodup := by
          apply nodup_of_dedup_length
          have := beq_iff_eq.mp hd
          rw [this, List.length_map]
        refine ⟨?_, ?_, s, rfl, ?_⟩
        · intro p hp
          unfold renameNeighbors at hn
          rw [List.all_eq_true] at hn
          simpa using hn p hp
        · intro p p' hp hp' he
          have := nodup_map_inj (·.2) rn hnd _ (mem_intPairs hp) _ (mem_intPairs hp')
            (by simp only [he])
          exact Key.lvl.inj (congrArg Prod.fst this)
        · intro p hp l hl hls
          rw [List.all_eq_true] at h
          have := h l hls
          simp only [Bool.not_eq_true', List.contains_eq_mem, decide_eq_false_iff_not] at this
          apply this
          refine List.mem_map.mpr ⟨_, mem_intPairs hp, ?_⟩
          simp only [hl]
    · simp only [hd, Bool.not_false, if_true] at h
      cases h
  · simp only [hn, Bool.not_false, if_true] at h
    cases h

/-- when some level pair is not adjacent the test fails without looking at the target -/
theorem preimageFused_not_neighbors {t : Tbl} {rn : List (Key × Key)} (target : Int)
    (h : renameNeighbors rn = false) : preimageFused t rn target = .ok false := by
  unfold preimageFused
  simp only [h, Bool.not_false, if_true]

/-- on a member of the manager the test returns -/
theorem preimageFused_ok {t : Tbl} (hw : WFU t) (rn : List (Key × Key)) (target : Int)
    (hv : t.Mem target) : ∃ b, preimageFused t rn target = .ok b := by
  obtain ⟨s, hs, _⟩ := supportLevels_spec' hw target hv
  unfold preimageFused
  rw [hs]
  split
  · exact ⟨_, rfl⟩
  split
  · exact ⟨_, rfl⟩
  · exact ⟨_, rfl⟩

/-- the decorated body `_preimage_of(bdd, trans, target, rename, qvars, forall)`, reordering not enabled,
the FUSED branch (the test `fused` holds: the recursion `_image` renames the target on the fly):
when the pairs of the renaming are declared levels, adjacent (`|k - rename k| = 1`), no two keys
share a target, and THE TARGET IS INDEPENDENT OF EVERY VALUE OF THE RENAMING, the result is
`Q qvars. trans ∧ rename(target)`. -/
theorem preimageBody_spec_fused (m : Mgr) (hI : Inv m) (hoff : m.lastLen = none)
    (hV : VarsBij m.tbl) (trans target : Int) (hu : m.tbl.Mem trans) (hv : m.tbl.Mem target)
    (rn : List (Key × Key)) (qvars : List Key) (fa : Bool) (q : List Nat)
    (hq : mapToLevelE m.tbl qvars = .ok q)
    (hf : preimageFused m.tbl (resolveRename m.tbl rn) target = .ok true)
    (hne : resolveRename m.tbl rn ≠ [] → 0 < m.nvars)
    (hov : renameOverlap (resolveRename m.tbl rn) = false)
    (hnb : badKeys (resolveRename m.tbl rn) = [])
    (hlv : ∀ p, p ∈ intPairs (resolveRename m.tbl rn) →
      0 ≤ p.1 ∧ p.1 < (m.nvars : Int) ∧ 0 ≤ p.2 ∧ p.2 < (m.nvars : Int))
    (hadj : ∀ p, p ∈ intPairs (resolveRename m.tbl rn) → (p.1 - p.2).natAbs = 1)
    (hinj : ∀ p p', p ∈ intPairs (resolveRename m.tbl rn) →
      p' ∈ intPairs (resolveRename m.tbl rn) → p.2 = p'.2 → p.1 = p'.1)
    (hind : ∀ p, p ∈ intPairs (resolveRename m.tbl rn) → ∀ l : Nat, p.2 = (l : Int) →
      ¬ dependsOn m.tbl target l) :
    ∃ r m', preimageBody trans target rn qvars fa m = (.ok r, m') ∧ Inv m' ∧ Ext m.tbl m'.tbl ∧
      m'.tbl.Mem r ∧ Frame m m' ∧
      ∀ a, den m'.tbl r a = true ↔
        qsem fa q (fun b => den m.tbl trans b && den m.tbl target
          (fun j => b (renOf (intPairs (resolveRename m.tbl rn)) j))) a := by
  generalize hpairs : intPairs (resolveRename m.tbl rn) = pairs at hlv hadj hinj hind ⊢
  have hnv : m.nvars = m.tbl.nvars := rfl
  have hW := hI.wf.toWF
  have hterm : (pairs.lookup (m.nvars : Int)).getD (m.nvars : Int) = (m.nvars : Int) := by
    cases hl : pairs.lookup (m.nvars : Int) with
    | none => rfl
    | some x =>
      have := (hlv _ (lookup_some_mem _ _ _ hl)).2.1
      simp only at this
      omega
  obtain ⟨r, c', m', he, h1, h2, h3, _, h5, h6⟩ := imageF_spec_preimage pairs q fa (renOf pairs)
    (fun j => InSupp m.tbl target j) (2 * m.nvars + 4) m trans target {} hI hoff hu hv
    (fun _ h => h)
    (fun j hj => ⟨renOf_eq pairs (fun p hp => (hlv p hp).2.2.1) j,
      renOf_lt pairs m.nvars (fun p hp => (hlv p hp).2.2.2) j (by rw [hnv]; exact hj.lt_nvars hW)⟩)
    hterm
    (renOf_mono pairs _ (fun p hp => (hlv p hp).2.2.1) hadj hinj
      (fun p hp j hj heq => hind p hp j heq (hj.dependsOn hI.wf)))
    (IMemo.empty _ _ _ _ _) (by omega)
  refine ⟨r, m', ?_, h1, h2, h5, h3, h6⟩
  unfold preimageBody
  simp only [hq, assertValidRename_ok m hV _ hne hov, hf, if_true, hpairs, hnb, he]

/-! ### the renaming dictionary: keys and values given as names or as levels -/

/-- `bdd.vars.get(k, k)` -/
def resKey (t : Tbl) : Key → Key
  | .name s => match t.vars[s]? with
    | some l => .lvl l
    | none => .name s
  | .lvl i => .lvl i

/-- a list of items read as a Python `dict` (a later duplicate of a key overwrites; order of
first insertion) -/
def renameDictOf (l : List (Key × Key)) : List (Key × Key) :=
  (dedup (l.reverse.map (·.1))).reverse.map fun k => (k, (l.reverse.lookup k).getD k)

theorem resolveRename_eq (t : Tbl) (rn : List (Key × Key)) :
    resolveRename t rn = renameDictOf (rn.map fun p => (resKey t p.1, resKey t p.2)) := by
  have hg : (fun p : Key × Key => (resKey t p.1, resKey t p.2)) = fun x => match x with
      | (k, v) => (resKey t k, resKey t v) := by
    funext p; rfl
  unfold resolveRename renameDictOf
  rfl

theorem dedup_of_nodup_img {α} [BEq α] [LawfulBEq α] : ∀ l : List α, l.Nodup → dedup l = l := by
  intro l
  induction l with
  | nil => intro _; rfl
  | cons a l ih =>
    intro h
    rw [List.nodup_cons] at h
    simp only [dedup, ih h.2]
    simp [h.1]

theorem lookup_of_mem_nodup_img {α β} [BEq α] [LawfulBEq α] :
    ∀ l : List (α × β), (l.map (·.1)).Nodup → ∀ k v, (k, v) ∈ l → l.lookup k = some v := by
  intro l
  induction l with
  | nil => intro _ k v h; cases h
  | cons p l ih =>
    intro hn k v hm
    obtain ⟨k', v'⟩ := p
    rw [List.map_cons, List.nodup_cons] at hn
    rw [List.lookup_cons]
    rcases List.mem_cons.mp hm with h | h
    · cases h; simp
    · have hne : k ≠ k' := by
        intro he; subst he
        exact hn.1 (List.mem_map.mpr ⟨(k, v), h, rfl⟩)
      have : (k == k') = false := by simpa using hne
      simp only [this]
      exact ih hn.2 k v h

/-- a dictionary given by items with pairwise distinct keys is the list of these items -/
theorem renameDictOf_nodup (l : List (Key × Key)) (h : (l.map (·.1)).Nodup) : renameDictOf l = l := by
  unfold renameDictOf
  have hr : (l.reverse.map (·.1)).Nodup := by
    rw [List.map_reverse]
    exact List.pairwise_reverse.mpr (h.imp fun hab => hab.symm)
  rw [dedup_of_nodup_img _ hr, ← List.map_reverse, List.reverse_reverse, List.map_map]
  have : ∀ p, p ∈ l → ((fun k => (k, (l.reverse.lookup k).getD k)) ∘ (·.1)) p = id p := by
    intro p hp
    obtain ⟨k, v⟩ := p
    have := lookup_of_mem_nodup_img l.reverse hr k v (List.mem_reverse.mpr hp)
    simp [this]
  rw [List.map_congr_left this, List.map_id]

/-- `rename` given by LEVELS with pairwise distinct keys: the level pairs are the items -/
theorem intPairs_resolveRename_levels (t : Tbl) (l : List (Int × Int))
    (h : (l.map (·.1)).Nodup) :
    resolveRename t (l.map fun p => (Key.lvl p.1, Key.lvl p.2)) =
      l.map (fun p => (Key.lvl p.1, Key.lvl p.2)) ∧
    intPairs (l.map fun p => (Key.lvl p.1, Key.lvl p.2)) = l := by
  constructor
  · rw [resolveRename_eq, List.map_map]
    have : ((fun p : Key × Key => (resKey t p.1, resKey t p.2)) ∘
        fun p : Int × Int => (Key.lvl p.1, Key.lvl p.2)) = fun p => (Key.lvl p.1, Key.lvl p.2) := by
      funext p; rfl
    rw [this]
    apply renameDictOf_nodup
    rw [List.map_map]
    have : ((·.1) ∘ fun p : Int × Int => (Key.lvl p.1, Key.lvl p.2)) = Key.lvl ∘ (·.1) := by
      funext p; rfl
    rw [this, ← List.map_map]
    exact List.Pairwise.map _ (fun a b hab he => hab (Key.lvl.inj he)) h
  · exact intPairs_map_lvl l

/-- `rename` given by declared NAMES with pairwise distinct keys: the level pairs are the pairs
of the levels of the names -/
theorem intPairs_resolveRename_names (t : Tbl) (hV : VarsBij t) (l : List (String × String))
    (h : (l.map (·.1)).Nodup)
    (hd : ∀ p, p ∈ l → t.vars.contains p.1 = true ∧ t.vars.contains p.2 = true) :
    resolveRename t (l.map fun p => (Key.name p.1, Key.name p.2)) =
      l.map (fun p => (Key.lvl (lvlOf t p.1), Key.lvl (lvlOf t p.2))) ∧
    intPairs (l.map fun p => (Key.lvl (lvlOf t p.1 : Int), Key.lvl (lvlOf t p.2 : Int))) =
      l.map (fun p => ((lvlOf t p.1 : Int), (lvlOf t p.2 : Int))) := by
  have hres : ∀ s, t.vars.contains s = true → resKey t (.name s) = .lvl (lvlOf t s) := by
    intro s hs
    obtain ⟨i, hi⟩ := (vars_contains_iff t s).mp hs
    simp [resKey, hi, lvlOf]
  constructor
  · rw [resolveRename_eq, List.map_map]
    have : l.map ((fun p : Key × Key => (resKey t p.1, resKey t p.2)) ∘
        fun p : String × String => (Key.name p.1, Key.name p.2)) =
        l.map fun p => (Key.lvl (lvlOf t p.1), Key.lvl (lvlOf t p.2)) := by
      apply List.map_congr_left
      intro p hp
      simp only [Function.comp]
      rw [hres _ (hd p hp).1, hres _ (hd p hp).2]
    rw [this]
    apply renameDictOf_nodup
    rw [List.map_map]
    rw [List.Nodup, List.pairwise_map]
    rw [List.Nodup, List.pairwise_map] at h
    refine h.imp_of_mem ?_
    intro a b ha hb hab he
    apply hab
    simp only [Function.comp] at he
    have he' : lvlOf t a.1 = lvlOf t b.1 := by
      have := Key.lvl.inj he
      omega
    obtain ⟨i, hi⟩ := (vars_contains_iff t _).mp (hd a ha).1
    obtain ⟨j, hj⟩ := (vars_contains_iff t _).mp (hd b hb).1
    rw [lvlOf_eq hi, lvlOf_eq hj] at he'
    subst he'
    exact hV.inj hi hj
  · have := intPairs_map_lvl (l.map fun p => ((lvlOf t p.1 : Int), (lvlOf t p.2 : Int)))
    rw [List.map_map] at this
    exact this

/-- the two syntactic checks on a dictionary all of whose keys and values are levels -/
theorem renameOverlap_lvls (l : List (Int × Int)) :
    renameOverlap (l.map fun p => (Key.lvl p.1, Key.lvl p.2)) = false ↔
      ∀ p p', p ∈ l → p' ∈ l → p.2 ≠ p'.1 := by
  unfold renameOverlap
  rw [← Bool.not_eq_true, List.any_eq_true]
  constructor
  · intro h p p' hp hp' he
    apply h
    refine ⟨(Key.lvl p.1, Key.lvl p.2), List.mem_map.mpr ⟨p, hp, rfl⟩, ?_⟩
    simp only [List.any_eq_true, decide_eq_true_eq]
    exact ⟨(Key.lvl p'.1, Key.lvl p'.2), List.mem_map.mpr ⟨p', hp', rfl⟩, by simp [he]⟩
  · rintro h ⟨x, hx, hx2⟩
    obtain ⟨p, hp, rfl⟩ := List.mem_map.mp hx
    simp only [List.any_eq_true, decide_eq_true_eq] at hx2
    obtain ⟨y, hy, hy2⟩ := hx2
    obtain ⟨p', hp', rfl⟩ := List.mem_map.mp hy
    exact h p p' hp hp' (Key.lvl.inj hy2).symm

theorem renameNonLevel_lvls (l : List (Int × Int)) :
    renameNonLevel (l.map fun p => (Key.lvl p.1, Key.lvl p.2)) = false := by
  unfold renameNonLevel
  rw [← Bool.not_eq_true, List.any_eq_true]
  rintro ⟨x, hx, hx2⟩
  obtain ⟨p, _, rfl⟩ := List.mem_map.mp hx
  simp at hx2

/-! ### `_image_args_by_name`: the arguments as variable names, and back -/

/-- resolving the name of a key gives what resolving the key gives -/
theorem resKey_keyByName (t : Tbl) (hV : VarsBij t) (k : Key) :
    resKey t (keyByName t k) = resKey t k := by
  cases k with
  | name s =>
    cases hv : t.vars[s]? with
    | none => simp [keyByName, resKey, hv]
    | some l =>
      have hl := hV.v2l s l hv
      simp [keyByName, resKey, hv, hl]
  | lvl i =>
    by_cases h0 : 0 ≤ i
    · cases hl : t.l2v[i.toNat]? with
      | none => simp [keyByName, resKey, h0, hl]
      | some nm =>
        have hv := hV.l2v _ _ hl
        simp only [keyByName, resKey, h0, if_true, hl, hv]
        congr 1
        omega
    · simp [keyByName, resKey, h0]

theorem keyByName_resKey (t : Tbl) (k : Key) : keyByName t (resKey t k) = keyByName t k := by
  cases k with
  | lvl i => rfl
  | name s =>
    cases hv : t.vars[s]? with
    | none => simp [resKey, hv]
    | some l =>
      have h0 : (0 : Int) ≤ (l : Int) := by omega
      simp only [resKey, hv, keyByName, h0, if_true, Int.toNat_natCast]

/-- resolving is injective on keys that are already given by name -/
theorem resKey_inj_byName (t : Tbl) (hV : VarsBij t) (k k' : Key)
    (h : resKey t (keyByName t k) = resKey t (keyByName t k')) : keyByName t k = keyByName t k' := by
  have h2 := congrArg (keyByName t) h
  rw [keyByName_resKey, keyByName_resKey] at h2
  have idem : ∀ x, keyByName t (keyByName t x) = keyByName t x := by
    intro x
    rw [← keyByName_resKey t (keyByName t x), resKey_keyByName t hV, keyByName_resKey]
  rw [idem, idem] at h2
  exact h2

theorem dedup_map_inj {α β} [BEq α] [LawfulBEq α] [BEq β] [LawfulBEq β] (f : α → β) :
    ∀ l : List α, (∀ a, a ∈ l → ∀ b, b ∈ l → f a = f b → a = b) →
      dedup (l.map f) = (dedup l).map f := by
  intro l
  induction l with
  | nil => intro _; rfl
  | cons a l ih =>
    intro h
    have ih' := ih (fun x hx y hy => h x (List.mem_cons_of_mem _ hx) y (List.mem_cons_of_mem _ hy))
    have hc : ((dedup l).map f).contains (f a) = (dedup l).contains a := by
      rw [Bool.eq_iff_iff]
      simp only [List.contains_iff_mem, List.mem_map]
      constructor
      · rintro ⟨x, hx, hfx⟩
        have hxl : x ∈ l := mem_dedup.mp hx
        have := h x (List.mem_cons_of_mem _ hxl) a List.mem_cons_self hfx
        subst this
        exact hx
      · intro ha
        exact ⟨a, ha, rfl⟩
    simp only [List.map_cons, dedup, ih', hc]
    split <;> simp

theorem lookup_map_inj {α β γ δ} [BEq α] [LawfulBEq α] [BEq β] [LawfulBEq β] (f : α → β) (g : γ → δ) :
    ∀ (l : List (α × γ)) (k : α), (∀ p, p ∈ l → f p.1 = f k → p.1 = k) →
      (l.map fun p => (f p.1, g p.2)).lookup (f k) = (l.lookup k).map g := by
  intro l
  induction l with
  | nil => intro k _; rfl
  | cons p l ih =>
    intro k h
    obtain ⟨k', v'⟩ := p
    rw [List.map_cons, List.lookup_cons, List.lookup_cons]
    by_cases he : k = k'
    · subst he
      simp
    · have h1 : (k == k') = false := by simpa using he
      have h2 : (f k == f k') = false := by
        simp only [beq_eq_false_iff_ne, ne_eq]
        intro hh
        exact he (h (k', v') List.mem_cons_self hh.symm).symm
      simp only [h1, h2]
      exact ih k (fun p hp => h p (List.mem_cons_of_mem _ hp))

/-- a dictionary read through a map that is injective on its keys -/
theorem renameDictOf_map_inj (f : Key → Key) (l : List (Key × Key))
    (hinj : ∀ a, a ∈ l.map (·.1) → ∀ b, b ∈ l.map (·.1) → f a = f b → a = b) :
    renameDictOf (l.map fun p => (f p.1, f p.2)) = (renameDictOf l).map fun p => (f p.1, f p.2) := by
  unfold renameDictOf
  have hrev : (l.map fun p => (f p.1, f p.2)).reverse = l.reverse.map fun p => (f p.1, f p.2) := by
    rw [List.map_reverse]
  have hkeys : (l.reverse.map fun p => (f p.1, f p.2)).map (·.1) = (l.reverse.map (·.1)).map f := by
    rw [List.map_map, List.map_map]; rfl
  have hinj' : ∀ a, a ∈ l.reverse.map (·.1) → ∀ b, b ∈ l.reverse.map (·.1) → f a = f b → a = b := by
    intro a ha b hb
    rw [List.map_reverse, List.mem_reverse] at ha hb
    exact hinj a ha b hb
  rw [hrev, hkeys, dedup_map_inj f _ hinj', ← List.map_reverse, List.map_map, List.map_map]
  apply List.map_congr_left
  intro k hk
  have hkl : k ∈ l.reverse.map (·.1) := mem_dedup.mp (List.mem_reverse.mp hk)
  simp only [Function.comp]
  rw [lookup_map_inj f f l.reverse k (fun p hp hfp => hinj' _ (List.mem_map.mpr ⟨p, hp, rfl⟩) _ hkl hfp)]
  cases l.reverse.lookup k <;> rfl

theorem renameDictOf_keys (l : List (Key × Key)) :
    (renameDictOf l).map (·.1) = (dedup (l.reverse.map (·.1))).reverse := by
  unfold renameDictOf
  rw [List.map_map]
  exact List.map_id' _

theorem renameDictOf_idem (l : List (Key × Key)) : renameDictOf (renameDictOf l) = renameDictOf l := by
  apply renameDictOf_nodup
  rw [renameDictOf_keys]
  exact List.pairwise_reverse.mpr ((nodup_dedup _).imp fun hab => hab.symm)

theorem renameByName_eq (t : Tbl) (rn : List (Key × Key)) :
    renameByName t rn = renameDictOf (rn.map fun p => (keyByName t p.1, keyByName t p.2)) := by
  unfold renameByName renameDictOf
  rfl

/-- `_image_of` resolves the renaming by name to the levels the caller's renaming resolves to -/
theorem resolveRename_renameByName (t : Tbl) (hV : VarsBij t) (rn : List (Key × Key)) :
    resolveRename t (renameByName t rn) = resolveRename t rn := by
  rw [resolveRename_eq, resolveRename_eq, renameByName_eq]
  generalize hl' : (rn.map fun p => (keyByName t p.1, keyByName t p.2)) = l'
  have hinj : ∀ a, a ∈ (renameDictOf l').map (·.1) → ∀ b, b ∈ (renameDictOf l').map (·.1) →
      resKey t a = resKey t b → a = b := by
    have hk : ∀ a, a ∈ (renameDictOf l').map (·.1) → ∃ k, a = keyByName t k := by
      intro a ha
      rw [renameDictOf_keys, List.mem_reverse, mem_dedup, List.map_reverse, List.mem_reverse,
        ← hl', List.map_map] at ha
      obtain ⟨p, _, rfl⟩ := List.mem_map.mp ha
      exact ⟨p.1, rfl⟩
    intro a ha b hb hab
    obtain ⟨k, rfl⟩ := hk a ha
    obtain ⟨k', rfl⟩ := hk b hb
    exact resKey_inj_byName t hV k k' hab
  have hinj2 : ∀ a, a ∈ l'.map (·.1) → ∀ b, b ∈ l'.map (·.1) → resKey t a = resKey t b → a = b := by
    intro a ha b hb hab
    rw [← hl', List.map_map] at ha hb
    obtain ⟨p, _, rfl⟩ := List.mem_map.mp ha
    obtain ⟨p', _, rfl⟩ := List.mem_map.mp hb
    exact resKey_inj_byName t hV p.1 p'.1 hab
  rw [renameDictOf_map_inj (resKey t) (renameDictOf l') hinj, renameDictOf_idem,
    ← renameDictOf_map_inj (resKey t) l' hinj2, ← hl', List.map_map]
  congr 1
  apply List.map_congr_left
  intro p _
  simp only [Function.comp, resKey_keyByName t hV]

theorem mapME_mem {α β} (f : α → Except Err β) : ∀ (l : List α) (bs : List β),
    mapME f l = .ok bs → ∀ b, b ∈ bs → ∃ a, a ∈ l ∧ f a = .ok b := by
  intro l
  induction l with
  | nil =>
    intro bs h b hb
    simp only [mapME] at h
    cases h
    cases hb
  | cons a l ih =>
    intro bs h b hb
    unfold mapME at h
    split at h
    · cases h
    · next b0 hb0 =>
      split at h
      · cases h
      · next bs0 hbs0 =>
        cases h
        rcases List.mem_cons.mp hb with rfl | hb'
        · exact ⟨a, List.mem_cons_self, hb0⟩
        · obtain ⟨a', ha', hf⟩ := ih bs0 hbs0 b hb'
          exact ⟨a', List.mem_cons_of_mem _ ha', hf⟩

/-- every level that `_map_to_level` returns has a name -/
theorem mapToLevelE_named (t : Tbl) (hV : VarsBij t) (keys : List Key) (q : List Nat)
    (h : mapToLevelE t keys = .ok q) : ∀ j, j ∈ q → ∃ nm, t.l2v[j]? = some nm := by
  have hlv : ∀ ks : List Key, ks.all (keyIsLevel t) = true → ∀ j,
      j ∈ (ks.map fun k => match k with
          | .lvl i => i.toNat
          | .name _ => 0) → ∃ nm, t.l2v[j]? = some nm := by
    intro ks hall j hj
    obtain ⟨k, hk, rfl⟩ := List.mem_map.mp hj
    have hkl := (List.all_eq_true.mp hall) k hk
    cases k with
    | name s => simp [keyIsLevel] at hkl
    | lvl i =>
      simp only [keyIsLevel, Bool.and_eq_true, decide_eq_true_eq] at hkl
      have := hkl.2
      rw [TreeMap.contains_eq_isSome_getElem?] at this
      exact Option.isSome_iff_exists.mp this
  have hvr : ∀ ks : List Key, mapME (keyVarLevel t) ks = .ok q → ∀ j, j ∈ q →
      ∃ nm, t.l2v[j]? = some nm := by
    intro ks hm j hj
    obtain ⟨k, _, hk⟩ := mapME_mem _ _ _ hm j hj
    cases k with
    | lvl i => simp [keyVarLevel] at hk
    | name s =>
      simp only [keyVarLevel] at hk
      split at hk
      · next l hl =>
        cases hk
        exact ⟨s, hV.v2l _ _ hl⟩
      · cases hk
  cases keys with
  | nil =>
    simp only [mapToLevelE] at h
    cases h
    intro j hj
    cases hj
  | cons k0 rest =>
    cases k0 with
    | lvl i =>
      simp only [mapToLevelE, Bool.not_false, if_true] at h
      by_cases hall : (Key.lvl i :: rest).all (keyIsLevel t) = true
      · rw [if_pos hall] at h
        cases h
        exact hlv _ hall
      · rw [if_neg hall] at h
        cases h
    | name s =>
      by_cases hc : t.vars.contains s = true
      · simp only [mapToLevelE, hc, Bool.not_true, Bool.false_eq_true, if_false] at h
        exact hvr _ h
      · have hc' : t.vars.contains s = false := Bool.eq_false_iff.mpr hc
        simp only [mapToLevelE, hc', Bool.not_false, if_true] at h
        by_cases hall : (Key.name s :: rest).all (keyIsLevel t) = true
        · rw [if_pos hall] at h
          cases h
          exact hlv _ hall
        · rw [if_neg hall] at h
          cases h

/-- `_image_args_by_name` on `qvars`: the names of the levels; `_image_of` maps them back to
the same levels -/
theorem qvarsByName_ok (t : Tbl) (hV : VarsBij t) (qvars : List Key) (q : List Nat)
    (h : mapToLevelE t qvars = .ok q) :
    ∃ qn, qvarsByName t qvars = .ok qn ∧ mapToLevelE t qn = .ok q := by
  have hn := mapToLevelE_named t hV qvars q h
  refine ⟨(q.map (t.nameOf)).map Key.name, ?_, ?_⟩
  · unfold qvarsByName
    rw [h]
    simp only
    rw [List.map_map]
    apply mapME_ok
    intro j hj
    obtain ⟨nm, hnm⟩ := hn j hj
    simp [hnm, Tbl.nameOf]
  · rw [mapToLevelE_names t (q.map t.nameOf)]
    · rw [List.map_map]
      congr 1
      conv => rhs; rw [← List.map_id q]
      apply List.map_congr_left
      intro j hj
      obtain ⟨nm, hnm⟩ := hn j hj
      simp only [Function.comp, Tbl.nameOf, hnm, Option.getD_some, id]
      exact lvlOf_eq (hV.l2v _ _ hnm)
    · intro s hs
      obtain ⟨j, hj, rfl⟩ := List.mem_map.mp hs
      obtain ⟨nm, hnm⟩ := hn j hj
      simp only [Tbl.nameOf, hnm, Option.getD_some]
      exact (vars_contains_iff t nm).mpr ⟨j, hV.l2v _ _ hnm⟩

theorem qvarsByName_error (t : Tbl) (qvars : List Key) (e : Err)
    (h : mapToLevelE t qvars = .error e) : qvarsByName t qvars = .error e := by
  unfold qvarsByName
  rw [h]

/-- the body only looks at what its two arguments resolve to -/
theorem imageBody_congr (trans source : Int) (rn rn' : List (Key × Key)) (qv qv' : List Key)
    (fa : Bool) (m : Mgr) (hq : mapToLevelE m.tbl qv' = mapToLevelE m.tbl qv)
    (hr : resolveRename m.tbl rn' = resolveRename m.tbl rn) :
    imageBody trans source rn' qv' fa m = imageBody trans source rn qv fa m := by
  unfold imageBody
  rw [hq, hr]

theorem preimageBody_congr (trans target : Int) (rn rn' : List (Key × Key)) (qv qv' : List Key)
    (fa : Bool) (m : Mgr) (hq : mapToLevelE m.tbl qv' = mapToLevelE m.tbl qv)
    (hr : resolveRename m.tbl rn' = resolveRename m.tbl rn) :
    preimageBody trans target rn' qv' fa m = preimageBody trans target rn qv fa m := by
  unfold preimageBody
  rw [hq, hr]

/-- `image` is the decorated body run on the arguments by name (order maps inverse bijections,
`qvars` accepted by `_map_to_level`), which resolve to the same levels as the caller's -/
theorem image_eq_decorated (m : Mgr) (hV : VarsBij m.tbl) (trans source : Int)
    (rn : List (Key × Key)) (qvars : List Key) (fa : Bool) (q : List Nat)
    (hq : mapToLevelE m.tbl qvars = .ok q) :
    ∃ qn, image trans source rn qvars fa m =
        tryToReorder (imageBody trans source (renameByName m.tbl rn) qn fa) m ∧
      mapToLevelE m.tbl qn = .ok q := by
  obtain ⟨qn, h1, h2⟩ := qvarsByName_ok m.tbl hV qvars q hq
  refine ⟨qn, ?_, h2⟩
  unfold image
  rw [h1]

theorem preimage_eq_decorated (m : Mgr) (hV : VarsBij m.tbl) (trans target : Int)
    (rn : List (Key × Key)) (qvars : List Key) (fa : Bool) (q : List Nat)
    (hq : mapToLevelE m.tbl qvars = .ok q) :
    ∃ qn, preimage trans target rn qvars fa m =
        tryToReorder (preimageBody trans target (renameByName m.tbl rn) qn fa) m ∧
      mapToLevelE m.tbl qn = .ok q := by
  obtain ⟨qn, h1, h2⟩ := qvarsByName_ok m.tbl hV qvars q hq
  refine ⟨qn, ?_, h2⟩
  unfold preimage
  rw [h1]

/-- the body (run on the caller's own arguments, flag set) returns without a reordering request:
so does `image`, with the same result, in the same state with the flag restored -/
theorem image_of_body_ok (m : Mgr) (hV : VarsBij m.tbl) (trans source : Int)
    (rn : List (Key × Key)) (qvars : List Key) (fa : Bool) (q : List Nat)
    (hq : mapToLevelE m.tbl qvars = .ok q) (r : Int) (m1 : Mgr)
    (h : imageBody trans source rn qvars fa { m with ctx := true } = (.ok r, m1)) :
    image trans source rn qvars fa m = (.ok r, { m1 with ctx := m.ctx }) := by
  obtain ⟨qn, he, hqn⟩ := image_eq_decorated m hV trans source rn qvars fa q hq
  rw [he]
  apply tryToReorder_ok
  rw [imageBody_congr trans source rn _ qvars qn fa { m with ctx := true }
    (by show mapToLevelE m.tbl qn = mapToLevelE m.tbl qvars; rw [hqn, hq])
    (resolveRename_renameByName m.tbl hV rn)]
  exact h

theorem image_of_body_err (m : Mgr) (hV : VarsBij m.tbl) (trans source : Int)
    (rn : List (Key × Key)) (qvars : List Key) (fa : Bool) (q : List Nat)
    (hq : mapToLevelE m.tbl qvars = .ok q) (e : Err) (m1 : Mgr) (hne : e ≠ .needsReordering)
    (h : imageBody trans source rn qvars fa { m with ctx := true } = (.error e, m1)) :
    image trans source rn qvars fa m = (.error e, { m1 with ctx := m.ctx }) := by
  obtain ⟨qn, he, hqn⟩ := image_eq_decorated m hV trans source rn qvars fa q hq
  rw [he]
  apply tryToReorder_err _ _ _ _ _ hne
  rw [imageBody_congr trans source rn _ qvars qn fa { m with ctx := true }
    (by show mapToLevelE m.tbl qn = mapToLevelE m.tbl qvars; rw [hqn, hq])
    (resolveRename_renameByName m.tbl hV rn)]
  exact h

theorem preimage_of_body_ok (m : Mgr) (hV : VarsBij m.tbl) (trans target : Int)
    (rn : List (Key × Key)) (qvars : List Key) (fa : Bool) (q : List Nat)
    (hq : mapToLevelE m.tbl qvars = .ok q) (r : Int) (m1 : Mgr)
    (h : preimageBody trans target rn qvars fa { m with ctx := true } = (.ok r, m1)) :
    preimage trans target rn qvars fa m = (.ok r, { m1 with ctx := m.ctx }) := by
  obtain ⟨qn, he, hqn⟩ := preimage_eq_decorated m hV trans target rn qvars fa q hq
  rw [he]
  apply tryToReorder_ok
  rw [preimageBody_congr trans target rn _ qvars qn fa { m with ctx := true }
    (by show mapToLevelE m.tbl qn = mapToLevelE m.tbl qvars; rw [hqn, hq])
    (resolveRename_renameByName m.tbl hV rn)]
  exact h

/-! ### `image`, `preimage`: reordering not enabled -/

/-- module-level `image(trans, source, rename, qvars, bdd, forall)`, reordering not enabled, ANY
variable order: `q` are the levels `_map_to_level` computes for `qvars`, the renaming is the
dictionary of level pairs that `resolveRename` (names looked up in `bdd.vars`) produces.  When
the code's own checks pass (no key is a value; every target quantified or outside the supports)
and the pairs are declared levels, the result is `rename(Q qvars. trans ∧ source)`. -/
theorem image_spec (m : Mgr) (hI : Inv m) (hoff : m.lastLen = none) (hV : VarsBij m.tbl)
    (trans source : Int) (hu : m.tbl.Mem trans) (hv : m.tbl.Mem source)
    (rn : List (Key × Key)) (qvars : List Key) (fa : Bool) (q : List Nat)
    (hq : mapToLevelE m.tbl qvars = .ok q)
    (hov : renameOverlap (resolveRename m.tbl rn) = false)
    (hnl : renameNonLevel (resolveRename m.tbl rn) = false)
    (hlv : ∀ p, p ∈ intPairs (resolveRename m.tbl rn) →
      0 ≤ p.1 ∧ p.1 < (m.nvars : Int) ∧ 0 ≤ p.2 ∧ p.2 < (m.nvars : Int))
    (htg : ∀ p, p ∈ intPairs (resolveRename m.tbl rn) → ∀ l : Nat, p.2 = (l : Int) →
      l ∈ q ∨ (¬ dependsOn m.tbl trans l ∧ ¬ dependsOn m.tbl source l)) :
    ∃ r m', image trans source rn qvars fa m = (.ok r, m') ∧ Inv m' ∧ Ext m.tbl m'.tbl ∧
      m'.tbl.Mem r ∧ Frame m m' ∧
      ∀ a, den m'.tbl r a = true ↔
        qsem fa q (fun b => den m.tbl trans b && den m.tbl source b)
          (fun z => a (renOf (intPairs (resolveRename m.tbl rn)) z)) := by
  obtain ⟨r, m1, he, h1, h2, h3, h4, h5⟩ := imageBody_spec { m with ctx := true } (hI.setCtx true)
    hoff hV trans source hu hv rn qvars fa q hq hov hnl hlv htg
  exact ⟨r, { m1 with ctx := m.ctx }, image_of_body_ok m hV trans source rn qvars fa q hq r m1 he,
    h1.setCtx _, h2, h3, ⟨h4.vars, h4.l2v, h4.lastLen, rfl, h4.sched, h4.roots⟩, h5⟩

/-- `image` refuses (AssertionError, manager untouched) when a key of the renaming is also a
value -/
theorem image_refuses_overlap (m : Mgr) (hV : VarsBij m.tbl) (trans source : Int)
    (rn : List (Key × Key))
    (qvars : List Key) (fa : Bool) (q : List Nat) (hq : mapToLevelE m.tbl qvars = .ok q)
    (hov : renameOverlap (resolveRename m.tbl rn) = true) :
    image trans source rn qvars fa m = (.error .assertion, m) :=
  image_of_body_err m hV trans source rn qvars fa q hq .assertion { m with ctx := true } (by simp)
    (imageBody_refuses_overlap { m with ctx := true } trans source rn qvars fa q hq hov)

/-- `image` refuses (AssertionError, manager untouched) when a rename target is in the support
of an operand and is not quantified -/
theorem image_refuses_target (m : Mgr) (hI : Inv m) (hV : VarsBij m.tbl)
    (trans source : Int) (hu : m.tbl.Mem trans) (hv : m.tbl.Mem source)
    (rn : List (Key × Key)) (qvars : List Key) (fa : Bool) (q : List Nat)
    (hq : mapToLevelE m.tbl qvars = .ok q)
    (hov : renameOverlap (resolveRename m.tbl rn) = false)
    (hnl : renameNonLevel (resolveRename m.tbl rn) = false)
    (hlv : ∀ p, p ∈ intPairs (resolveRename m.tbl rn) →
      0 ≤ p.1 ∧ p.1 < (m.nvars : Int) ∧ 0 ≤ p.2 ∧ p.2 < (m.nvars : Int))
    (p : Int × Int) (hp : p ∈ intPairs (resolveRename m.tbl rn)) (l : Nat)
    (hl : p.2 = (l : Int)) (hlq : l ∉ q)
    (hdep : dependsOn m.tbl trans l ∨ dependsOn m.tbl source l) :
    image trans source rn qvars fa m = (.error .assertion, m) :=
  image_of_body_err m hV trans source rn qvars fa q hq .assertion { m with ctx := true } (by simp)
    (imageBody_refuses_target { m with ctx := true } (hI.setCtx true) hV trans source hu hv rn
      qvars fa q hq hov hnl hlv p hp l hl hlq hdep)

/-- `image` with the renaming and the quantified variables given BY NAME (declared names,
pairwise distinct keys, no key is a value) -/
theorem image_spec_names (m : Mgr) (hI : Inv m) (hoff : m.lastLen = none) (hV : VarsBij m.tbl)
    (trans source : Int) (hu : m.tbl.Mem trans) (hv : m.tbl.Mem source)
    (l : List (String × String)) (qs : List String) (fa : Bool)
    (hkeys : (l.map (·.1)).Nodup)
    (hd : ∀ p, p ∈ l → m.tbl.vars.contains p.1 = true ∧ m.tbl.vars.contains p.2 = true)
    (hqd : ∀ s, s ∈ qs → m.tbl.vars.contains s = true)
    (hov : ∀ p p', p ∈ l → p' ∈ l → p.2 ≠ p'.1)
    (htg : ∀ p, p ∈ l → p.2 ∈ qs ∨ (¬ dependsOn m.tbl trans (lvlOf m.tbl p.2) ∧
      ¬ dependsOn m.tbl source (lvlOf m.tbl p.2))) :
    ∃ r m', image trans source (l.map fun p => (Key.name p.1, Key.name p.2))
        (qs.map Key.name) fa m = (.ok r, m') ∧ Inv m' ∧ Ext m.tbl m'.tbl ∧
      m'.tbl.Mem r ∧ Frame m m' ∧
      ∀ a, den m'.tbl r a = true ↔
        qsem fa (qs.map (lvlOf m.tbl)) (fun b => den m.tbl trans b && den m.tbl source b)
          (fun z => a (renOf
            (l.map fun p => ((lvlOf m.tbl p.1 : Int), (lvlOf m.tbl p.2 : Int))) z)) := by
  obtain ⟨hres, hip⟩ := intPairs_resolveRename_names m.tbl hV l hkeys hd
  generalize hlp : (l.map fun p => ((lvlOf m.tbl p.1 : Int), (lvlOf m.tbl p.2 : Int))) = lp at hip
  have hres' : resolveRename m.tbl (l.map fun p => (Key.name p.1, Key.name p.2)) =
      lp.map fun p => (Key.lvl p.1, Key.lvl p.2) := by
    rw [hres, ← hlp, List.map_map]; rfl
  have hip' : intPairs (lp.map fun p => (Key.lvl p.1, Key.lvl p.2)) = lp := intPairs_map_lvl lp
  have hlvl : ∀ s, m.tbl.vars.contains s = true → lvlOf m.tbl s < m.nvars := by
    intro s hs
    obtain ⟨i, hi⟩ := (vars_contains_iff _ _).mp hs
    rw [lvlOf_eq hi]; exact hV.lt _ _ hi
  have hinj : ∀ s s', m.tbl.vars.contains s = true → m.tbl.vars.contains s' = true →
      lvlOf m.tbl s = lvlOf m.tbl s' → s = s' := by
    intro s s' hs hs' he
    obtain ⟨i, hi⟩ := (vars_contains_iff _ _).mp hs
    obtain ⟨j, hj⟩ := (vars_contains_iff _ _).mp hs'
    rw [lvlOf_eq hi, lvlOf_eq hj] at he
    subst he
    exact hV.inj hi hj
  have hmem : ∀ x, x ∈ lp → ∃ p, p ∈ l ∧ x = ((lvlOf m.tbl p.1 : Int), (lvlOf m.tbl p.2 : Int)) := by
    intro x hx
    rw [← hlp] at hx
    obtain ⟨p, hp, rfl⟩ := List.mem_map.mp hx
    exact ⟨p, hp, rfl⟩
  have := image_spec m hI hoff hV trans source hu hv (l.map fun p => (Key.name p.1, Key.name p.2))
    (qs.map Key.name) fa (qs.map (lvlOf m.tbl)) (mapToLevelE_names m.tbl qs hqd)
    (by
      rw [hres', renameOverlap_lvls]
      intro x x' hx hx' he
      obtain ⟨p, hp, rfl⟩ := hmem x hx
      obtain ⟨p', hp', rfl⟩ := hmem x' hx'
      simp only at he
      exact hov p p' hp hp' (hinj _ _ (hd p hp).2 (hd p' hp').1 (by omega)))
    (by rw [hres']; exact renameNonLevel_lvls lp)
    (by
      rw [hres', hip']
      intro x hx
      obtain ⟨p, hp, rfl⟩ := hmem x hx
      have h1 := hlvl _ (hd p hp).1
      have h2 := hlvl _ (hd p hp).2
      simp only
      omega)
    (by
      rw [hres', hip']
      intro x hx lv hlv
      obtain ⟨p, hp, rfl⟩ := hmem x hx
      simp only at hlv
      have : lvlOf m.tbl p.2 = lv := by omega
      subst this
      rcases htg p hp with h | h
      · exact Or.inl (List.mem_map.mpr ⟨p.2, h, rfl⟩)
      · exact Or.inr h)
  rw [hres', hip'] at this
  exact this

end DD
