/-
  DDProofs.UsedObs — observation helpers for the non-vacuity examples on the USED manager
  `usedM` (DDProofs.UsedExample): the truth table of a reference over the four levels, and the
  remaining hypotheses the property theorems ask for (`VarsBij`, membership of every reference).

  Levels of `usedM`: 0 = c, 1 = a, 2 = d, 3 = b (declared in this order).  References:
  2 = a, 3 = b, 4 = a ∧ b, 5 = c, 6 = d, 7 = (c ≡ d), 13 = ite(c ≡ d, a ∧ b, ¬b), 14 = a ∨ d.
-/
import DDProofs.UsedExample
import DDProofs.SatCount
import DDProofs.VarsBijOrder
open Std
namespace DD

/-- the truth table of `u` over levels 0..3: sixteen rows in lexicographic order of
`(level 0, level 1, level 2, level 3)`, `false` before `true`; every other level is `false` -/
def tt4 (t : Tbl) (u : Int) : List Bool :=
  (allAsg [0, 1, 2, 3] (fun _ => false)).map (den t u)

/-- the sixteen assignments in the order of the rows of `tt4` -/
def rows4 : List Asg := allAsg [0, 1, 2, 3] (fun _ => false)

theorem usedM_varsBij : VarsBij usedM.tbl := VarsBij.ofOrderOK usedM_good.order

/-- every reference `±1 … ±14` is a reference of `usedM` -/
theorem usedM_mem {u : Int} (h : 1 ≤ u.natAbs ∧ u.natAbs ≤ 14) : usedM.tbl.Mem u := by
  have hk : ∀ k : Fin 15, 1 ≤ k.val → usedM.tbl.Mem (k.val : Int) := by decide +kernel
  have h1 := hk ⟨u.natAbs, by omega⟩ h.1
  unfold Tbl.Mem at h1 ⊢
  simpa using h1

/-- the functions held by the user, as tables (rows: c a d b) -/
theorem usedM_tables :
    tt4 usedM.tbl 4 = [false, false, false, false, false, true, false, true,
                       false, false, false, false, false, true, false, true] ∧
    tt4 usedM.tbl 13 = [false, false, true, false, false, true, true, false,
                        true, false, false, false, true, false, false, true] ∧
    tt4 usedM.tbl 14 = [false, false, true, true, true, true, true, true,
                        false, false, true, true, true, true, true, true] := by decide +kernel

/-- a pointwise statement about `den` (what the property theorems conclude) gives the table -/
theorem tt4_of_den {t : Tbl} {u : Int} {g : Asg → Bool} (h : ∀ a, den t u a = g a) :
    tt4 t u = rows4.map g := by
  unfold tt4 rows4
  exact List.map_congr_left (fun a _ => h a)

theorem tt4_of_iff {t : Tbl} {u : Int} {g : Asg → Bool} (h : ∀ a, den t u a = true ↔ g a = true) :
    tt4 t u = rows4.map g :=
  tt4_of_den (fun a => Bool.eq_iff_iff.mpr (h a))

private theorem eq_upd_self (a b : Asg) (j : Nat) (h : ∀ i, i ∉ [j] → b i = a i) :
    b = upd a j (b j) := by
  funext i
  by_cases hi : i = j
  · subst hi; simp [upd]
  · rw [upd_other _ _ _ _ hi]; exact h i (by simpa using hi)

/-- quantification over ONE level, in the evaluable form: the disjunction of the two cofactors -/
theorem exists_one_level (p : Asg → Bool) (a : Asg) (j : Nat) :
    (∃ b : Asg, (∀ i, i ∉ [j] → b i = a i) ∧ p b = true) ↔
      (p (upd a j false) || p (upd a j true)) = true := by
  constructor
  · rintro ⟨b, hb, hp⟩
    rw [eq_upd_self a b j hb] at hp
    cases h : b j <;> rw [h] at hp <;> simp [hp]
  · intro h
    rcases Bool.or_eq_true_iff.mp h with h | h
    · exact ⟨_, fun i hi => upd_other _ _ _ _ (by simpa using hi), h⟩
    · exact ⟨_, fun i hi => upd_other _ _ _ _ (by simpa using hi), h⟩

/-- … and the conjunction for the universal quantifier -/
theorem forall_one_level (p : Asg → Bool) (a : Asg) (j : Nat) :
    (∀ b : Asg, (∀ i, i ∉ [j] → b i = a i) → p b = true) ↔
      (p (upd a j false) && p (upd a j true)) = true := by
  constructor
  · intro h
    rw [Bool.and_eq_true_iff]
    exact ⟨h _ (fun i hi => upd_other _ _ _ _ (by simpa using hi)),
      h _ (fun i hi => upd_other _ _ _ _ (by simpa using hi))⟩
  · intro h b hb
    rw [eq_upd_self a b j hb]
    rw [Bool.and_eq_true_iff] at h
    cases b j
    · exact h.1
    · exact h.2

end DD
