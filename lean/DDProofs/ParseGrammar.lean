/-
  DDProofs.ParseGrammar — the grammar relation over the REGENERATED production table.

  `Gen.grammar` (regenerated from the docstrings of the `p_*` functions of `dd/_parser.py`, one
  entry `(function, left-hand side, right-hand side)` per alternative) is read as a context-free
  grammar: `PT` are parse trees, `PT.Ok g` says that every inner node is an entry of `g`,
  `PT.val` computes the value of a tree by the semantic actions of the `p_*` functions (`act`,
  a transcription of their bodies: which `p[i]` go where), and

      GDerives toks t  :=  some parse tree for `expr` over `Gen.grammar` has the yield `toks`
                           and the value `t`.

  `derives_generic : Derives toks t → GDerives toks t`; with `parse_sound`:
  `parse toks = some t → GDerives toks t` — the model parser only returns trees that the grammar
  of the current source derives for the given token string.
-/
import DDProofs.ParseDerives
open Std
namespace DD

/-- the PLY token type of a token -/
def Tok.type : Tok → String
  | .lparen => "LPAREN" | .rparen => "RPAREN" | .comma => "COMMA" | .colon => "COLON"
  | .div => "DIV" | .at => "AT" | .not => "NOT" | .forall_ => "FORALL" | .exists_ => "EXISTS"
  | .rename => "RENAME" | .ite => "ITE" | .tt => "TRUE" | .ff => "FALSE"
  | .op o => o.type | .name _ => "NAME" | .number _ => "NUMBER" | .bad => "error"

/-- parse trees: a token, or a production `fn : lhs → symbols of the children` -/
inductive PT
  | leaf (t : Tok)
  | node (fn lhs : String) (kids : List PT)

/-- the grammar symbol at the root -/
def PT.sym : PT → String
  | .leaf t => t.type
  | .node _ lhs _ => lhs

mutual
/-- the tokens at the leaves, left to right -/
def PT.yield : PT → List Tok
  | .leaf t => [t]
  | .node _ _ kids => PT.yieldL kids
def PT.yieldL : List PT → List Tok
  | [] => []
  | k :: ks => k.yield ++ PT.yieldL ks
end

/-- every inner node is an alternative of the grammar `g` -/
inductive PT.Ok (g : List (String × String × List String)) : PT → Prop
  | leaf (t : Tok) : PT.Ok g (.leaf t)
  | node (fn lhs : String) (kids : List PT) : (fn, lhs, kids.map PT.sym) ∈ g →
      (∀ k ∈ kids, PT.Ok g k) → PT.Ok g (.node fn lhs kids)

/-- the values on PLY's stack -/
inductive PVal
  | tok (t : Tok)
  | ast (a : Ast)
  | name (s : String)
  | names (l : List String)
  | number (neg : Bool) (digits : String)
  | sub (p : String × String)
  | subs (l : List (String × String))

/-- the semantic actions: `p[0]` from `p[1..]`, by function (the `Ast` of `\S` keeps the pairs
`(new, old)` in the order written; `_Translator` builds nodes instead of trees: `evalAst`) -/
def act : String → List (Option PVal) → Option PVal
  | "p_bool", [some (.tok .tt)] => some (.ast (.bool true))
  | "p_bool", [some (.tok .ff)] => some (.ast (.bool false))
  | "p_name", [some (.tok (.name s))] => some (.name s)
  | "p_names_end", [some (.name x)] => some (.names [x])
  | "p_names_iter", [some (.names xs), some (.tok .comma), some (.name x)] => some (.names (xs ++ [x]))
  | "p_number", [some (.tok (.number d))] => some (.number false d)
  | "p_negative_number", [some (.tok (.op .minus)), some (.tok (.number d))] => some (.number true d)
  | "p_node", [some (.tok .at), some (.number neg d)] => some (.ast (.num neg d))
  | "p_var", [some (.name x)] => some (.ast (.var x))
  | "p_unary", [some (.tok .not), some (.ast a)] => some (.ast (.not a))
  | "p_binary", [some (.ast a), some (.tok (.op o)), some (.ast b)] => some (.ast (.bin o a b))
  | "p_paren", [some (.tok .lparen), some (.ast a), some (.tok .rparen)] => some (.ast a)
  | "p_ternary_conditional", [some (.tok .ite), some (.tok .lparen), some (.ast a), some (.tok .comma),
      some (.ast b), some (.tok .comma), some (.ast c), some (.tok .rparen)] => some (.ast (.ite a b c))
  | "p_quantifier", [some (.tok .forall_), some (.names xs), some (.tok .colon), some (.ast a)] =>
    some (.ast (.quant true xs a))
  | "p_quantifier", [some (.tok .exists_), some (.names xs), some (.tok .colon), some (.ast a)] =>
    some (.ast (.quant false xs a))
  | "p_rename", [some (.tok .rename), some (.subs ss), some (.tok .colon), some (.ast a)] =>
    some (.ast (.subst ss a))
  | "p_substitution", [some (.name new), some (.tok .div), some (.name old)] => some (.sub (new, old))
  | "p_substitutions_end", [some (.sub p)] => some (.subs [p])
  | "p_substitutions_iter", [some (.subs l), some (.tok .comma), some (.sub p)] => some (.subs (l ++ [p]))
  | _, _ => none

mutual
/-- the value of a parse tree -/
def PT.val : PT → Option PVal
  | .leaf t => some (.tok t)
  | .node fn _ kids => act fn (PT.valL kids)
def PT.valL : List PT → List (Option PVal)
  | [] => []
  | k :: ks => k.val :: PT.valL ks
end

/-- a parse tree of the symbol `s` over the regenerated grammar with yield `toks` and value `v` -/
def GTree (s : String) (toks : List Tok) (v : PVal) : Prop :=
  ∃ pt : PT, pt.Ok Gen.grammar ∧ pt.sym = s ∧ pt.yield = toks ∧ pt.val = some v

/-- `toks` derives from `expr` in the grammar of the source, with the tree `t` as its value -/
def GDerives (toks : List Tok) (t : Ast) : Prop := GTree "expr" toks (.ast t)

/-! ### names and substitutions (left-recursive lists) -/

def namesT : List String → List Tok
  | [] => []
  | [x] => [.name x]
  | x :: y :: r => .name x :: .comma :: namesT (y :: r)

theorem printNames_eq : ∀ xs : List String, xs ≠ [] → printNames xs = namesT xs ++ [.colon]
  | [], h => absurd rfl h
  | [x], _ => rfl
  | x :: y :: r, _ => by
    rw [printNames, namesT, printNames_eq (y :: r) (by simp)]
    rfl

theorem namesT_snoc : ∀ (ys : List String) (x : String), ys ≠ [] →
    namesT (ys ++ [x]) = namesT ys ++ [.comma, .name x]
  | [], _, h => absurd rfl h
  | [y], x, _ => rfl
  | y :: z :: r, x, _ => by
    have := namesT_snoc (z :: r) x (by simp)
    simp only [List.cons_append, namesT] at this ⊢
    rw [this]

def subsT : List (String × String) → List Tok
  | [] => []
  | [(n, o)] => [.name n, .div, .name o]
  | (n, o) :: y :: r => .name n :: .div :: .name o :: .comma :: subsT (y :: r)

theorem printSubs_eq : ∀ ss : List (String × String), ss ≠ [] → printSubs ss = subsT ss ++ [.colon]
  | [], h => absurd rfl h
  | [(n, o)], _ => rfl
  | (n, o) :: y :: r, _ => by
    rw [printSubs, subsT, printSubs_eq (y :: r) (by simp)]
    rfl

theorem subsT_snoc : ∀ (ys : List (String × String)) (p : String × String), ys ≠ [] →
    subsT (ys ++ [p]) = subsT ys ++ [.comma, .name p.1, .div, .name p.2]
  | [], _, h => absurd rfl h
  | [(n, o)], (n', o'), _ => rfl
  | (n, o) :: z :: r, p, _ => by
    have := subsT_snoc (z :: r) p (by simp)
    simp only [List.cons_append, subsT] at this ⊢
    rw [this]

@[simp] theorem PT.sym_leaf (t : Tok) : (PT.leaf t).sym = t.type := rfl

theorem ok_node {fn lhs : String} {kids : List PT} (syms : List String)
    (hs : kids.map PT.sym = syms) (hm : (fn, lhs, syms) ∈ Gen.grammar)
    (hk : ∀ k ∈ kids, PT.Ok Gen.grammar k) : PT.Ok Gen.grammar (.node fn lhs kids) :=
  .node _ _ _ (hs ▸ hm) hk

theorem gtree_name (x : String) : GTree "name" [.name x] (.name x) :=
  ⟨.node "p_name" "name" [.leaf (.name x)], ok_node ["NAME"] rfl (by decide) (by
    intro k hk; simp only [List.mem_singleton] at hk; subst hk; exact .leaf _), rfl, rfl, rfl⟩

theorem snoc_cases {α : Type} : ∀ (l : List α), l ≠ [] → ∃ ys x, l = ys ++ [x]
  | [], h => absurd rfl h
  | [x], _ => ⟨[], x, rfl⟩
  | x :: y :: r, _ => by
    obtain ⟨ys, z, h⟩ := snoc_cases (y :: r) (by simp)
    exact ⟨x :: ys, z, by rw [h]; rfl⟩

theorem gtree_names : ∀ (n : Nat) (xs : List String), xs.length = n + 1 →
    GTree "names" (namesT xs) (.names xs) := by
  intro n
  induction n with
  | zero =>
    intro xs h
    match xs, h with
    | [x], _ =>
      obtain ⟨pn, ok, hs, hy, hv⟩ := gtree_name x
      refine ⟨.node "p_names_end" "names" [pn], ok_node ["name"] (by simp [hs]) (by decide) ?_, rfl, ?_, ?_⟩
      · intro k hk; simp only [List.mem_singleton] at hk; subst hk; exact ok
      · simp [PT.yield, PT.yieldL, hy, namesT]
      · simp [PT.val, PT.valL, hv, act]
  | succ n ih =>
    intro xs h
    obtain ⟨ys, x, rfl⟩ := snoc_cases xs (by intro e; subst e; simp at h)
    have hys : ys.length = n + 1 := by simp at h; omega
    have hne : ys ≠ [] := by intro e; subst e; simp at hys
    obtain ⟨pl, okl, hsl, hyl, hvl⟩ := ih ys hys
    obtain ⟨pn, ok, hs, hy, hv⟩ := gtree_name x
    refine ⟨.node "p_names_iter" "names" [pl, .leaf .comma, pn],
      ok_node ["names", "COMMA", "name"] (by simp [hsl, hs, PT.sym_leaf, Tok.type]) (by decide) ?_, rfl, ?_, ?_⟩
    · intro k hk
      simp only [List.mem_cons, List.not_mem_nil, or_false] at hk
      rcases hk with rfl | rfl | rfl
      · exact okl
      · exact .leaf _
      · exact ok
    · simp [PT.yield, PT.yieldL, hyl, hy, namesT_snoc ys x hne]
    · simp [PT.val, PT.valL, hvl, hv, act]

theorem gtree_sub (p : String × String) : GTree "sub" [.name p.1, .div, .name p.2] (.sub p) := by
  obtain ⟨p1, ok1, hs1, hy1, hv1⟩ := gtree_name p.1
  obtain ⟨p2, ok2, hs2, hy2, hv2⟩ := gtree_name p.2
  refine ⟨.node "p_substitution" "sub" [p1, .leaf .div, p2],
    ok_node ["name", "DIV", "name"] (by simp [hs1, hs2, PT.sym_leaf, Tok.type]) (by decide) ?_, rfl, ?_, ?_⟩
  · intro k hk
    simp only [List.mem_cons, List.not_mem_nil, or_false] at hk
    rcases hk with rfl | rfl | rfl
    · exact ok1
    · exact .leaf _
    · exact ok2
  · simp [PT.yield, PT.yieldL, hy1, hy2]
  · simp [PT.val, PT.valL, hv1, hv2, act]

theorem gtree_subs : ∀ (n : Nat) (ss : List (String × String)), ss.length = n + 1 →
    GTree "subs" (subsT ss) (.subs ss) := by
  intro n
  induction n with
  | zero =>
    intro ss h
    match ss, h with
    | [p], _ =>
      obtain ⟨pn, ok, hs, hy, hv⟩ := gtree_sub p
      refine ⟨.node "p_substitutions_end" "subs" [pn], ok_node ["sub"] (by simp [hs]) (by decide) ?_, rfl, ?_, ?_⟩
      · intro k hk; simp only [List.mem_singleton] at hk; subst hk; exact ok
      · obtain ⟨a, b⟩ := p; simp [PT.yield, PT.yieldL, hy, subsT]
      · simp [PT.val, PT.valL, hv, act]
  | succ n ih =>
    intro ss h
    obtain ⟨ys, p, rfl⟩ := snoc_cases ss (by intro e; subst e; simp at h)
    have hys : ys.length = n + 1 := by simp at h; omega
    have hne : ys ≠ [] := by intro e; subst e; simp at hys
    obtain ⟨pl, okl, hsl, hyl, hvl⟩ := ih ys hys
    obtain ⟨pn, ok, hs, hy, hv⟩ := gtree_sub p
    refine ⟨.node "p_substitutions_iter" "subs" [pl, .leaf .comma, pn],
      ok_node ["subs", "COMMA", "sub"] (by simp [hsl, hs, PT.sym_leaf, Tok.type]) (by decide) ?_, rfl, ?_, ?_⟩
    · intro k hk
      simp only [List.mem_cons, List.not_mem_nil, or_false] at hk
      rcases hk with rfl | rfl | rfl
      · exact okl
      · exact .leaf _
      · exact ok
    · simp [PT.yield, PT.yieldL, hyl, hy, subsT_snoc ys p hne]
    · simp [PT.val, PT.valL, hvl, hv, act]

/-! ### every constructor of `Derives` is an alternative of the regenerated grammar -/

theorem binary_in_grammar (o : BinOp) : ("p_binary", "expr", ["expr", o.type, "expr"]) ∈ Gen.grammar := by
  cases o <;> decide

theorem ok_kids {g : List (String × String × List String)} {ks : List PT}
    (h : ∀ k ∈ ks, PT.Ok g k) : ∀ k ∈ ks, PT.Ok g k := h

/-- the hand-written relation is contained in the relation read off the regenerated table -/
theorem derives_generic {toks : List Tok} {t : Ast} (h : Derives toks t) : GDerives toks t := by
  induction h with
  | tt =>
    exact ⟨.node "p_bool" "expr" [.leaf .tt], .node _ _ _ (by decide) (by
      intro k hk; simp only [List.mem_singleton] at hk; subst hk; exact .leaf _), rfl, rfl, rfl⟩
  | ff =>
    exact ⟨.node "p_bool" "expr" [.leaf .ff], .node _ _ _ (by decide) (by
      intro k hk; simp only [List.mem_singleton] at hk; subst hk; exact .leaf _), rfl, rfl, rfl⟩
  | var x =>
    obtain ⟨pn, ok, hs, hy, hv⟩ := gtree_name x
    refine ⟨.node "p_var" "expr" [pn], ok_node ["name"] (by simp [hs]) (by decide) ?_, rfl, ?_, ?_⟩
    · intro k hk; simp only [List.mem_singleton] at hk; subst hk; exact ok
    · simp [PT.yield, PT.yieldL, hy]
    · simp [PT.val, PT.valL, hv, act]
  | num d =>
    refine ⟨.node "p_node" "expr" [.leaf .at, .node "p_number" "number" [.leaf (.number d)]],
      ok_node ["AT", "number"] rfl (by decide) ?_, rfl, rfl, rfl⟩
    intro k hk
    simp only [List.mem_cons, List.not_mem_nil, or_false] at hk
    rcases hk with rfl | rfl
    · exact .leaf _
    · exact ok_node ["NUMBER"] rfl (by decide) (by
        intro k hk; simp only [List.mem_singleton] at hk; subst hk; exact .leaf _)
  | negNum d =>
    refine ⟨.node "p_node" "expr" [.leaf .at,
        .node "p_negative_number" "number" [.leaf (.op .minus), .leaf (.number d)]],
      ok_node ["AT", "number"] rfl (by decide) ?_, rfl, rfl, rfl⟩
    intro k hk
    simp only [List.mem_cons, List.not_mem_nil, or_false] at hk
    rcases hk with rfl | rfl
    · exact .leaf _
    · refine ok_node ["MINUS", "NUMBER"] rfl (by decide) ?_
      intro k hk
      simp only [List.mem_cons, List.not_mem_nil, or_false] at hk
      rcases hk with rfl | rfl <;> exact .leaf _
  | @not ts a _ ih =>
    obtain ⟨pa, ok, hs, hy, hv⟩ := ih
    refine ⟨.node "p_unary" "expr" [.leaf .not, pa],
      ok_node ["NOT", "expr"] (by simp [hs, PT.sym_leaf, Tok.type]) (by decide) ?_, rfl, ?_, ?_⟩
    · intro k hk
      simp only [List.mem_cons, List.not_mem_nil, or_false] at hk
      rcases hk with rfl | rfl
      · exact .leaf _
      · exact ok
    · simp [PT.yield, PT.yieldL, hy]
    · simp [PT.val, PT.valL, hv, act]
  | @bin o l r a b _ _ iha ihb =>
    obtain ⟨pa, oka, hsa, hya, hva⟩ := iha
    obtain ⟨pb, okb, hsb, hyb, hvb⟩ := ihb
    refine ⟨.node "p_binary" "expr" [pa, .leaf (.op o), pb],
      ok_node ["expr", o.type, "expr"] (by simp [hsa, hsb, PT.sym_leaf, Tok.type]) (binary_in_grammar o) ?_,
      rfl, ?_, ?_⟩
    · intro k hk
      simp only [List.mem_cons, List.not_mem_nil, or_false] at hk
      rcases hk with rfl | rfl | rfl
      · exact oka
      · exact .leaf _
      · exact okb
    · simp [PT.yield, PT.yieldL, hya, hyb]
    · simp [PT.val, PT.valL, hva, hvb, act]
  | @paren ts a _ ih =>
    obtain ⟨pa, ok, hs, hy, hv⟩ := ih
    refine ⟨.node "p_paren" "expr" [.leaf .lparen, pa, .leaf .rparen],
      ok_node ["LPAREN", "expr", "RPAREN"] (by simp [hs, PT.sym_leaf, Tok.type]) (by decide) ?_, rfl, ?_, ?_⟩
    · intro k hk
      simp only [List.mem_cons, List.not_mem_nil, or_false] at hk
      rcases hk with rfl | rfl | rfl
      · exact .leaf _
      · exact ok
      · exact .leaf _
    · simp [PT.yield, PT.yieldL, hy]
    · simp [PT.val, PT.valL, hv, act]
  | @ite t1 t2 t3 a b c _ _ _ iha ihb ihc =>
    obtain ⟨pa, oka, hsa, hya, hva⟩ := iha
    obtain ⟨pb, okb, hsb, hyb, hvb⟩ := ihb
    obtain ⟨pc, okc, hsc, hyc, hvc⟩ := ihc
    refine ⟨.node "p_ternary_conditional" "expr"
        [.leaf .ite, .leaf .lparen, pa, .leaf .comma, pb, .leaf .comma, pc, .leaf .rparen],
      ok_node ["ITE", "LPAREN", "expr", "COMMA", "expr", "COMMA", "expr", "RPAREN"]
        (by simp [hsa, hsb, hsc, PT.sym_leaf, Tok.type]) (by decide) ?_, rfl, ?_, ?_⟩
    · intro k hk
      simp only [List.mem_cons, List.not_mem_nil, or_false] at hk
      rcases hk with rfl | rfl | rfl | rfl | rfl | rfl | rfl | rfl
      · exact .leaf _
      · exact .leaf _
      · exact oka
      · exact .leaf _
      · exact okb
      · exact .leaf _
      · exact okc
      · exact .leaf _
    · simp [PT.yield, PT.yieldL, hya, hyb, hyc]
    · simp [PT.val, PT.valL, hva, hvb, hvc, act]
  | @quant fa xs hne ts a _ ih =>
    obtain ⟨pa, ok, hs, hy, hv⟩ := ih
    obtain ⟨n, hn⟩ : ∃ n, xs.length = n + 1 := by
      cases xs with
      | nil => exact absurd rfl hne
      | cons x r => exact ⟨r.length, rfl⟩
    obtain ⟨pn, okn, hsn, hyn, hvn⟩ := gtree_names n xs hn
    refine ⟨.node "p_quantifier" "expr"
        [.leaf (if fa then Tok.forall_ else .exists_), pn, .leaf .colon, pa],
      ok_node [if fa then "FORALL" else "EXISTS", "names", "COLON", "expr"]
        (by cases fa <;> simp [hs, hsn, PT.sym_leaf, Tok.type]) (by cases fa <;> decide) ?_, rfl, ?_, ?_⟩
    · intro k hk
      simp only [List.mem_cons, List.not_mem_nil, or_false] at hk
      rcases hk with rfl | rfl | rfl | rfl
      · exact .leaf _
      · exact okn
      · exact .leaf _
      · exact ok
    · simp [PT.yield, PT.yieldL, hy, hyn, printNames_eq xs hne]
    · cases fa <;> simp [PT.val, PT.valL, hv, hvn, act]
  | @subst ss hne ts a _ ih =>
    obtain ⟨pa, ok, hs, hy, hv⟩ := ih
    obtain ⟨n, hn⟩ : ∃ n, ss.length = n + 1 := by
      cases ss with
      | nil => exact absurd rfl hne
      | cons x r => exact ⟨r.length, rfl⟩
    obtain ⟨pn, okn, hsn, hyn, hvn⟩ := gtree_subs n ss hn
    refine ⟨.node "p_rename" "expr" [.leaf .rename, pn, .leaf .colon, pa],
      ok_node ["RENAME", "subs", "COLON", "expr"] (by simp [hs, hsn, PT.sym_leaf, Tok.type]) (by decide) ?_, rfl, ?_, ?_⟩
    · intro k hk
      simp only [List.mem_cons, List.not_mem_nil, or_false] at hk
      rcases hk with rfl | rfl | rfl | rfl
      · exact .leaf _
      · exact okn
      · exact .leaf _
      · exact ok
    · simp [PT.yield, PT.yieldL, hy, hyn, printSubs_eq ss hne]
    · simp [PT.val, PT.valL, hv, hvn, act]

/-- SOUNDNESS w.r.t. the regenerated grammar: the model parser only returns trees that the
grammar of the current source derives (by its productions and semantic actions) for the given
token string -/
theorem parse_sound_generic (toks : List Tok) (t : Ast) (h : parse toks = some t) :
    GDerives toks t :=
  derives_generic (parse_sound toks t h)

end DD
