/-
  DDProofs.AutoTemps — operations of `dd.autoref` that create temporaries
  (`Function.__le__`, `__lt__`, `BDD.succ`): the temporaries are released, the
  registry ends as it started (plus the results), live `Function`s keep their
  meaning.
-/
import DDProofs.AutoProofs
import DDProofs.AutoTemps
import DDProofs.DynSchedTotalOps
import DDProofs.SchedAutoProofs
open Std

namespace DD.S

variable {off : Bool}

theorem AM.bind_eq (x : AM α) (f : α → AM β) (a : AMgr) :
    (x >>= f) a = match x a with
      | (.ok v, a1) => f v a1
      | (.error e, a1) => (.error e, a1) := rfl

/-- the id chosen for a temporary is not in use -/
theorem freshH_spec (a : AMgr) : ∃ t, freshH a = (.ok t, a) ∧ a.handles[t]? = none := by
  refine ⟨_, rfl, TreeMap.getElem?_eq_none_of_contains_eq_false ?_⟩
  cases hc : a.handles.contains (max (match a.handles.maxKey? with | some k => k + 1 | none => 0)
      (match a.foreign.maxKey? with | some k => k + 1 | none => 0)) with
  | false => rfl
  | true =>
    exfalso
    have hm := TreeMap.contains_iff_mem.mp hc
    cases hk : a.handles.maxKey? with
    | none =>
      have := TreeMap.maxKey?_eq_none_iff.mp hk
      have h2 := TreeMap.isEmpty_eq_false_of_contains hc
      rw [this] at h2; cases h2
    | some km =>
      have := (TreeMap.maxKey?_eq_some_iff_mem_and_forall.mp hk).2 _ hm
      rw [hk] at this
      simp only at this
      rw [Nat.isLE_compare] at this
      omega

theorem contains_false_of_none {t : TreeMap Nat Int} {j : Nat} (h : t[j]? = none) :
    t.contains j = false := by
  rw [TreeMap.contains_eq_isSome_getElem?, h]; rfl

/-! ### total step lemmas (no assumption on the outcome) -/

theorem liftM_total {op : M α} (a : AMgr) (hs : CoreKeepsAt off a.m op) (hi : AInv off a)
    (r : Except Err α) (a' : AMgr) (he : AM.liftM op a = (r, a')) :
    AInv off a' ∧ a'.handles = a.handles ∧
    (∀ (j : Nat) (u : Int), a.handles[j]? = some u →
      a'.m.tbl.Mem u ∧ ∀ asg, denN a'.m.tbl u asg = denN a.m.tbl u asg) := by
  unfold AM.liftM at he
  cases hop : op a.m with
  | mk r0 m' =>
    rw [hop] at he
    simp only at he
    cases he
    obtain ⟨h1, h3⟩ := hs (hext a) hi.minv r m' hop
    obtain ⟨i', hd⟩ := hi.after_core h1 h3
    exact ⟨i', rfl, hd⟩

/-- `wrapF` / `wrap` with a free id, whatever the integer -/
theorem wrap_step (a : AMgr) (t : Nat) (u : Int) (hi : AInv off a) (hf : a.handles[t]? = none)
    (r : Except Err Unit) (a' : AMgr) (he : wrap t u a = (r, a') ∨ wrapF t u a = (r, a')) :
    AInv off a' ∧ a'.m.tbl = a.m.tbl ∧ (∀ j : Nat, j ≠ t → a'.handles[j]? = a.handles[j]?) ∧
    ((r = .ok () ∧ a'.handles[t]? = some u) ∨ ((∃ e, r = .error e) ∧ a' = a)) := by
  have hfc := contains_false_of_none hf
  by_cases hu : a.m.tbl.Mem u
  · obtain ⟨i2, t2, hfr2, hok⟩ := wrap_total a t u hi hfc r a' he
    obtain ⟨a2, hw, _⟩ := wrap_spec a t u hi hfc hu
    obtain ⟨a3, hw3, _⟩ := wrapF_spec a t u hi hfc hu
    have hr : r = .ok () := by
      rcases he with he | he
      · rw [hw] at he; cases he; rfl
      · rw [hw3] at he; cases he; rfl
    exact ⟨i2, t2, hfr2, Or.inl ⟨hr, (hok hr).1⟩⟩
  · have hm : a.m.mem u = false := by
      cases hb : a.m.mem u
      · rfl
      · exact absurd ((Mgr.mem_iff a.m u).mp hb) hu
    have : (r, a') = (.error .value, a) := by
      rcases he with he | he
      · rw [← he]; unfold wrap; simp [hm]
      · rw [← he]; unfold wrapF; simp [hm]
    cases this
    exact ⟨hi, rfl, fun _ _ => rfl, Or.inr ⟨⟨_, rfl⟩, rfl⟩⟩

/-- `drop`, whether or not the id is in use -/
theorem drop_step (a : AMgr) (t : Nat) (hi : AInv off a) (r : Except Err Unit) (a' : AMgr)
    (he : drop t a = (r, a')) :
    AInv off a' ∧ a'.m.tbl = a.m.tbl ∧ (∀ j : Nat, j ≠ t → a'.handles[j]? = a.handles[j]?) ∧
    a'.handles[t]? = none := by
  cases hl : a.handles[t]? with
  | none =>
    have : (r, a') = (.error .other, a) := by
      rw [← he]; unfold drop; rw [hl]
    cases this
    exact ⟨hi, rfl, fun _ _ => rfl, hl⟩
  | some u =>
    obtain ⟨a2, h2, i2, t2, hh2, _⟩ := drop_spec a t u hi hl
    rw [h2] at he
    cases he
    refine ⟨i2, t2, fun j hj => ?_, ?_⟩
    · rw [hh2]; exact getElem?_erase_ne _ _ _ hj
    · rw [hh2]; exact TreeMap.getElem?_erase_self

/-! ### chains of steps inside one operation -/

/-- the state `b` reached from `a` inside an operation: the ids in `T` (temporaries and
results) were free in `a`, every other id is as in `a`, live `Function`s of `a` keep their meaning -/
structure Ch (off : Bool) (T : List Nat) (a b : AMgr) : Prop where
  inv : AInv off b
  fresh : ∀ t, t ∈ T → a.handles[t]? = none
  same : ∀ j : Nat, j ∉ T → b.handles[j]? = a.handles[j]?
  den : ∀ (j : Nat) (u : Int), a.handles[j]? = some u →
    b.m.tbl.Mem u ∧ ∀ asg, denN b.m.tbl u asg = denN a.m.tbl u asg

theorem Ch.refl {a : AMgr} (hi : AInv off a) : Ch off [] a a :=
  ⟨hi, (fun _ h => nomatch h), fun _ _ => rfl, fun j u hj => ⟨hi.hmem j u hj, fun _ => rfl⟩⟩

theorem Ch.live {T : List Nat} {a b : AMgr} (c : Ch off T a b) {j : Nat} {u : Int}
    (hj : a.handles[j]? = some u) : b.handles[j]? = some u := by
  have : j ∉ T := fun hm => by rw [c.fresh j hm] at hj; cases hj
  rw [c.same j this]; exact hj

theorem Ch.free {T : List Nat} {a b : AMgr} (c : Ch off T a b) {t : Nat} (ht : b.handles[t]? = none) :
    a.handles[t]? = none := by
  by_cases hm : t ∈ T
  · exact c.fresh t hm
  · rw [← c.same t hm]; exact ht

/-- a core operation in the middle of an autoref operation -/
theorem Ch.core {T : List Nat} {a b : AMgr} (c : Ch off T a b) {op : M α} (hs : CoreKeepsAt off b.m op)
    {r : Except Err α} {b' : AMgr} (he : AM.liftM op b = (r, b')) :
    Ch off T a b' ∧ b'.handles = b.handles := by
  obtain ⟨i', hh, hd⟩ := liftM_total b hs c.inv r b' he
  refine ⟨⟨i', c.fresh, fun j hj => by rw [hh]; exact c.same j hj, fun j u hj => ?_⟩, hh⟩
  obtain ⟨m1, d1⟩ := c.den j u hj
  obtain ⟨m2, d2⟩ := hd j u (c.live hj)
  exact ⟨m2, fun asg => (d2 asg).trans (d1 asg)⟩

/-- creating a `Function` with a free id -/
theorem Ch.wrap {T : List Nat} {a b : AMgr} (c : Ch off T a b) {t : Nat} {u : Int}
    (hf : b.handles[t]? = none) {r : Except Err Unit} {b' : AMgr}
    (he : wrap t u b = (r, b') ∨ wrapF t u b = (r, b')) :
    Ch off (t :: T) a b' ∧ b'.m.tbl = b.m.tbl ∧ (∀ j : Nat, j ≠ t → b'.handles[j]? = b.handles[j]?) ∧
    ((r = .ok () ∧ b'.handles[t]? = some u) ∨ ((∃ e, r = .error e) ∧ b' = b)) := by
  obtain ⟨i', ht, hfr, hres⟩ := wrap_step b t u c.inv hf r b' he
  refine ⟨⟨i', ?_, ?_, ?_⟩, ht, hfr, hres⟩
  · intro t' ht'
    rcases List.mem_cons.mp ht' with h | h
    · subst h; exact c.free hf
    · exact c.fresh t' h
  · intro j hj
    have h1 : j ≠ t := fun h => hj (h ▸ List.mem_cons_self)
    have h2 : j ∉ T := fun h => hj (List.mem_cons_of_mem _ h)
    rw [hfr j h1]; exact c.same j h2
  · intro j v hj
    rw [ht]; exact c.den j v hj

/-- dropping an id that was free at the beginning of the operation (a temporary) -/
theorem Ch.drop {T : List Nat} {a b : AMgr} (c : Ch off T a b) {t : Nat} (hT : t ∈ T)
    {r : Except Err Unit} {b' : AMgr} (he : drop t b = (r, b')) :
    Ch off T a b' ∧ b'.m.tbl = b.m.tbl ∧ (∀ j : Nat, j ≠ t → b'.handles[j]? = b.handles[j]?) ∧
    b'.handles[t]? = none := by
  obtain ⟨i', ht, hfr, hn⟩ := drop_step b t c.inv r b' he
  refine ⟨⟨i', c.fresh, ?_, ?_⟩, ht, hfr, hn⟩
  · intro j hj
    have h1 : j ≠ t := fun h => hj (h ▸ hT)
    rw [hfr j h1]; exact c.same j hj
  · intro j v hj
    rw [ht]; exact c.den j v hj

/-- an operation that leaves the registry exactly as it found it -/
def AKeeps0 (off : Bool) (x : AM α) : Prop :=
  ∀ a, AInv off a → ∀ r a', x a = (r, a') →
    AInv off a' ∧ (∀ j : Nat, a'.handles[j]? = a.handles[j]?) ∧
    (∀ (j : Nat) (u : Int), a.handles[j]? = some u →
      a'.m.tbl.Mem u ∧ ∀ asg, denN a'.m.tbl u asg = denN a.m.tbl u asg)

theorem AKeeps0.keeps {x : AM α} (h0 : AKeeps0 off x) (h : Nat) : AKeeps off h x :=
  fun a hi _ r a' he =>
    let ⟨i, s, d⟩ := h0 a hi r a' he
    ⟨i, fun j _ => s j, d⟩

/-- the end of a chain: every id of `T` is free again -/
theorem Ch.close {T : List Nat} {a b : AMgr} (c : Ch off T a b)
    (hz : ∀ t, t ∈ T → b.handles[t]? = none) :
    AInv off b ∧ (∀ j : Nat, b.handles[j]? = a.handles[j]?) ∧
    (∀ (j : Nat) (u : Int), a.handles[j]? = some u →
      b.m.tbl.Mem u ∧ ∀ asg, denN b.m.tbl u asg = denN a.m.tbl u asg) := by
  refine ⟨c.inv, fun j => ?_, c.den⟩
  by_cases hj : j ∈ T
  · rw [hz j hj, c.fresh j hj]
  · exact c.same j hj

theorem AKeeps0.of_read {x : AM α} (hx : ARead x) : AKeeps0 off x := by
  intro a hi r a' he
  have : a' = a := by have := hx a; rw [he] at this; exact this
  subst this
  exact ⟨hi, fun _ => rfl, fun j u hj => ⟨hi.hmem j u hj, fun _ => rfl⟩⟩

theorem AM.finally_eq (x : AM α) (c : AM Unit) (a : AMgr) :
    AM.finally' x c a = ((x a).1, (c (x a).2).2) := rfl

theorem AM.onErr_eq (x : AM α) (c : AM Unit) (a : AMgr) :
    AM.onErr x c a = match x a with
      | (.ok v, a') => (.ok v, a')
      | (.error e, a') => (.error e, (c a').2) := rfl

theorem forall_mem2 {P : Nat → Prop} {x y : Nat} (hx : P x) (hy : P y) :
    ∀ t, t ∈ [x, y] → P t := by
  intro t ht
  simp only [List.mem_cons, List.not_mem_nil, or_false] at ht
  rcases ht with rfl | rfl <;> assumption

theorem forall_mem3 {P : Nat → Prop} {x y z : Nat} (hx : P x) (hy : P y) (hz : P z) :
    ∀ t, t ∈ [x, y, z] → P t := by
  intro t ht
  simp only [List.mem_cons, List.not_mem_nil, or_false] at ht
  rcases ht with rfl | rfl | rfl <;> assumption

/-- `t2 = other | t1` -/
theorem fLeOr_ch (hor : ∀ (b : AMgr), AInv off b → ∀ (j1 j2 : Nat) (u v : Int), b.handles[j1]? = some u →
      b.handles[j2]? = some v → CoreKeepsAt off b.m (apply "or" u (some v) none))
    {T : List Nat} {a b : AMgr} (c : Ch off T a b) (ho : Nat) (n1 : Int) (t1 : Nat)
    (ht1 : b.handles[t1]? = some n1)
    (t2 : Nat) (hf : b.handles[t2]? = none) (r : Except Err Int) (b' : AMgr)
    (he : fLeOr ho n1 t2 b = (r, b')) :
    Ch off (t2 :: T) a b' ∧ (∀ j : Nat, j ≠ t2 → b'.handles[j]? = b.handles[j]?) ∧
    ((∃ n, r = .ok n ∧ b'.handles[t2]? = some n) ∨ ((∃ e, r = .error e) ∧ b'.handles[t2]? = none)) := by
  have c0 : Ch off (t2 :: T) a b := by
    refine ⟨c.inv, ?_, fun j hj => c.same j (fun h => hj (List.mem_cons_of_mem _ h)), c.den⟩
    intro t ht
    rcases List.mem_cons.mp ht with h | h
    · subst h; exact c.free hf
    · exact c.fresh t h
  unfold fLeOr at he
  rw [AM.bind_eq] at he
  have h1 := nodeSame_read ho b
  cases hx : nodeSame ho b with
  | mk r1 b1 =>
    rw [hx] at he h1
    simp only at h1
    subst h1
    cases r1 with
    | error e =>
      simp only at he; cases he
      exact ⟨c0, fun _ _ => rfl, Or.inr ⟨⟨_, rfl⟩, hf⟩⟩
    | ok o =>
      simp only at he
      rw [AM.bind_eq] at he
      cases hx2 : AM.liftM (apply "or" o (some n1) none) b1 with
      | mk r2 b2 =>
        rw [hx2] at he
        have hoh : b1.handles[ho]? = some o := nodeSame_handle ho b1 o (by rw [hx])
        obtain ⟨c2, hh2⟩ := c.core (hor b1 c.inv ho t1 o n1 hoh ht1) hx2
        have hf2 : b2.handles[t2]? = none := by rw [hh2]; exact hf
        cases r2 with
        | error e =>
          simp only at he; cases he
          refine ⟨?_, fun j _ => by rw [hh2], Or.inr ⟨⟨_, rfl⟩, hf2⟩⟩
          exact ⟨c2.inv, c0.fresh, fun j hj => by rw [hh2]; exact c0.same j hj, c2.den⟩
        | ok n2 =>
          simp only at he
          rw [AM.bind_eq] at he
          cases hx3 : wrapF t2 n2 b2 with
          | mk r3 b3 =>
            rw [hx3] at he
            obtain ⟨c3, _, hfr3, hres3⟩ := c2.wrap hf2 (Or.inr hx3)
            have hfr : ∀ j : Nat, j ≠ t2 → b3.handles[j]? = b1.handles[j]? := fun j hj => by
              rw [hfr3 j hj, hh2]
            rcases hres3 with ⟨hr3, hl3⟩ | ⟨⟨e, hr3⟩, hb3⟩
            · subst hr3
              simp only at he
              cases he
              exact ⟨c3, hfr, Or.inl ⟨n2, rfl, hl3⟩⟩
            · subst hr3
              simp only at he
              cases he
              subst hb3
              exact ⟨c3, hfr, Or.inr ⟨⟨_, rfl⟩, hf2⟩⟩

/-- `Function.__le__`: the three temporaries are released; nothing else changes -/
theorem fLe_keeps0 (hnot : ∀ u, CoreKeeps off (apply "not" u none none))
    (hor : ∀ (b : AMgr), AInv off b → ∀ (j1 j2 : Nat) (u v : Int), b.handles[j1]? = some u →
      b.handles[j2]? = some v → CoreKeepsAt off b.m (apply "or" u (some v) none)) (hs ho : Nat) :
    AKeeps0 off (fLe hs ho) := by
  intro a hi r a' he
  unfold fLe at he
  rw [AM.bind_eq] at he
  have h1 := nodeOwn_read hs a
  cases hx : nodeOwn hs a with
  | mk r1 a1 =>
    rw [hx] at he h1
    simp only at h1
    subst h1
    cases r1 with
    | error e =>
      simp only at he; cases he
      exact (Ch.refl hi).close (fun _ h => nomatch h)
    | ok s =>
      simp only at he
      obtain ⟨t1, hf1, hn1⟩ := freshH_spec a1
      rw [AM.bind_eq, hf1] at he
      simp only at he
      rw [AM.bind_eq] at he
      cases hx3 : AM.liftM (apply "not" s none none) a1 with
      | mk r3 a3 =>
        rw [hx3] at he
        obtain ⟨c3, hh3⟩ := (Ch.refl hi).core ((hnot s).at _) hx3
        cases r3 with
        | error e =>
          simp only at he; cases he
          exact c3.close (fun _ h => nomatch h)
        | ok n1 =>
          simp only at he
          rw [AM.bind_eq] at he
          cases hx4 : wrapF t1 n1 a3 with
          | mk r4 a4 =>
            rw [hx4] at he
            have hf3 : a3.handles[t1]? = none := by rw [hh3]; exact hn1
            obtain ⟨c4, _, hfr4, hres4⟩ := c3.wrap hf3 (Or.inr hx4)
            rcases hres4 with ⟨hr4, hl4⟩ | ⟨⟨e, hr4⟩, hb4⟩
            · subst hr4
              simp only at he
              obtain ⟨t2, hf2, hn2⟩ := freshH_spec a4
              rw [AM.bind_eq, hf2] at he
              simp only at he
              rw [AM.bind_eq, AM.finally_eq] at he
              cases hx5 : fLeOr ho n1 t2 a4 with
              | mk r5 a5 =>
                rw [hx5] at he
                simp only at he
                obtain ⟨c5, hfr5, hres5⟩ := fLeOr_ch hor c4 ho n1 t1 hl4 t2 hn2 r5 a5 hx5
                have h21 : t1 ≠ t2 := fun h => by rw [h, hn2] at hl4; cases hl4
                cases hx6 : drop t1 a5 with
                | mk r6 a6 =>
                  rw [hx6] at he
                  simp only at he
                  obtain ⟨c6, _, hfr6, hz6⟩ := c5.drop (List.mem_cons_of_mem _ List.mem_cons_self) hx6
                  rcases hres5 with ⟨n2, hr5, hl5⟩ | ⟨⟨e, hr5⟩, hl5⟩
                  · subst hr5
                    simp only at he
                    have hl6 : a6.handles[t2]? = some n2 := by rw [hfr6 t2 (Ne.symm h21)]; exact hl5
                    obtain ⟨t3, hf3', hn3⟩ := freshH_spec a6
                    rw [AM.bind_eq, hf3'] at he
                    simp only at he
                    have h32 : t2 ≠ t3 := fun h => by rw [h, hn3] at hl6; cases hl6
                    rw [AM.bind_eq, AM.onErr_eq] at he
                    cases hx7 : wrap t3 1 a6 with
                    | mk r7 a7 =>
                      rw [hx7] at he
                      obtain ⟨c7, _, hfr7, hres7⟩ := c6.wrap hn3 (Or.inl hx7)
                      rcases hres7 with ⟨hr7, hl7⟩ | ⟨⟨e, hr7⟩, hb7⟩
                      · subst hr7
                        simp only at he
                        rw [AM.bind_eq] at he
                        cases hx8 : drop t2 a7 with
                        | mk r8 a8 =>
                          rw [hx8] at he
                          obtain ⟨c8, _, hfr8, hz8⟩ :=
                            c7.drop (List.mem_cons_of_mem _ List.mem_cons_self) hx8
                          have hfinal : ∀ (r9 : Except Err Unit) (a9 : AMgr), drop t3 a8 = (r9, a9) →
                              AInv off a9 ∧ (∀ j : Nat, a9.handles[j]? = a1.handles[j]?) ∧
                              (∀ (j : Nat) (u : Int), a1.handles[j]? = some u →
                                a9.m.tbl.Mem u ∧ ∀ asg, denN a9.m.tbl u asg = denN a1.m.tbl u asg) := by
                            intro r9 a9 hx9
                            obtain ⟨c9, _, hfr9, hz9⟩ := c8.drop List.mem_cons_self hx9
                            refine c9.close (forall_mem3 hz9 ?_ ?_)
                            · rw [hfr9 t2 h32]; exact hz8
                            · by_cases h13 : t1 = t3
                              · rw [h13]; exact hz9
                              · rw [hfr9 t1 h13, hfr8 t1 h21, hfr7 t1 h13]; exact hz6
                          cases r8 with
                          | error e =>
                            -- `drop` never raises; the registry is closed all the same
                            exfalso
                            have hl7' : a7.handles[t2]? = some n2 := by rw [hfr7 t2 h32]; exact hl6
                            have hd : (drop t2 a7).1 = .ok () := by unfold drop; rw [hl7']
                            rw [hx8] at hd; cases hd
                          | ok _ =>
                            simp only at he
                            rw [AM.bind_eq] at he
                            cases hx9 : drop t3 a8 with
                            | mk r9 a9 =>
                              rw [hx9] at he
                              have hfin := hfinal r9 a9 hx9
                              cases r9 with
                              | error e => simp only at he; cases he; exact hfin
                              | ok _ => simp only at he; cases he; exact hfin
                      · subst hr7
                        simp only at he
                        subst hb7
                        cases hx8 : drop t2 a7 with
                        | mk r8 a8 =>
                          rw [hx8] at he
                          simp only at he
                          cases he
                          obtain ⟨c8, _, hfr8, hz8⟩ :=
                            c7.drop (List.mem_cons_of_mem _ List.mem_cons_self) hx8
                          refine c8.close (forall_mem3 ?_ hz8 ?_)
                          · rw [hfr8 t3 (Ne.symm h32)]; exact hn3
                          · rw [hfr8 t1 h21]; exact hz6
                  · subst hr5
                    simp only at he
                    cases he
                    refine c6.close (forall_mem2 ?_ hz6)
                    rw [hfr6 t2 (Ne.symm h21)]; exact hl5
            · subst hr4
              simp only at he
              cases he
              subst hb4
              exact c3.close (fun _ h => nomatch h)

theorem AKeeps0.toL {x : AM α} (h0 : AKeeps0 off x) : AKeepsL off [] x :=
  fun a hi _ r a' he =>
    let ⟨i, s, d⟩ := h0 a hi r a' he
    ⟨i, fun j _ => s j, d⟩

theorem AKeeps0.then_read {x : AM α} {f : α → AM β} (hx : AKeeps0 off x) (hf : ∀ v, ARead (f v)) :
    AKeeps0 off (x >>= f) := by
  intro a hi r a' he
  rw [AM.bind_eq] at he
  cases hxa : x a with
  | mk r0 a1 =>
    rw [hxa] at he
    have k := hx a hi r0 a1 hxa
    cases r0 with
    | error e => simp only at he; cases he; exact k
    | ok v =>
      simp only at he
      have h2 := hf v a1
      rw [he] at h2
      simp only at h2
      subst h2
      exact k

theorem fEq_read (hs ho : Nat) : ARead (fEq hs ho) := by
  unfold fEq
  exact ARead.bind (nodeOwn_read hs) fun _ => ARead.bind (nodeSame_read ho) fun _ => ARead.pure _

theorem fNe_read (hs ho : Nat) : ARead (fNe hs ho) := by
  unfold fNe
  exact ARead.bind (nodeSame_read ho) fun _ => ARead.bind (fEq_read hs ho) fun _ => ARead.pure _

/-- `Function.__lt__` -/
theorem fLt_keeps0 (hnot : ∀ u, CoreKeeps off (apply "not" u none none))
    (hor : ∀ (b : AMgr), AInv off b → ∀ (j1 j2 : Nat) (u v : Int), b.handles[j1]? = some u →
      b.handles[j2]? = some v → CoreKeepsAt off b.m (apply "or" u (some v) none)) (hs ho : Nat) :
    AKeeps0 off (fLt hs ho) := by
  unfold fLt
  refine (fLe_keeps0 hnot hor hs ho).then_read fun le => ?_
  cases le
  · exact ARead.pure _
  · exact fNe_read hs ho

/-- `Function.__eq__`, `__ne__`: reads -/
theorem fEq_keeps0 (hs ho : Nat) : AKeeps0 off (fEq hs ho) := AKeeps0.of_read (fEq_read hs ho)
theorem fNe_keeps0 (hs ho : Nat) : AKeeps0 off (fNe hs ho) := AKeeps0.of_read (fNe_read hs ho)

/-- the two wrappers of `BDD.succ` -/
theorem aSuccWrap_spec (a : AMgr) (hi : AInv off a) (h1 h2 : Nat) (v w : Int) (hne : h1 ≠ h2)
    (hf1 : a.handles[h1]? = none) (hf2 : a.handles[h2]? = none)
    (r : Except Err Unit) (a' : AMgr) (he : aSuccWrap h1 h2 v w a = (r, a')) :
    Ch off [h2, h1] a a' ∧
    ((r = .ok () ∧ a'.handles[h1]? = some v ∧ a'.handles[h2]? = some w) ∨
     ((∃ e, r = .error e) ∧ a'.handles[h1]? = none ∧ a'.handles[h2]? = none)) := by
  unfold aSuccWrap at he
  rw [AM.bind_eq] at he
  cases hx1 : wrap h1 v a with
  | mk r1 a1 =>
    rw [hx1] at he
    obtain ⟨c1, _, hfr1, hres1⟩ := (Ch.refl hi).wrap hf1 (Or.inl hx1)
    have c1' : Ch off [h2, h1] a a1 := by
      refine ⟨c1.inv, forall_mem2 hf2 hf1, fun j hj => ?_, c1.den⟩
      exact c1.same j (fun h => hj (List.mem_cons_of_mem _ h))
    rcases hres1 with ⟨hr1, hl1⟩ | ⟨⟨e, hr1⟩, hb1⟩
    · subst hr1
      simp only at he
      rw [AM.onErr_eq] at he
      have hf2' : a1.handles[h2]? = none := by rw [hfr1 h2 (Ne.symm hne)]; exact hf2
      cases hx2 : wrap h2 w a1 with
      | mk r2 a2 =>
        rw [hx2] at he
        obtain ⟨c2, _, hfr2, hres2⟩ := c1.wrap hf2' (Or.inl hx2)
        rcases hres2 with ⟨hr2, hl2⟩ | ⟨⟨e, hr2⟩, hb2⟩
        · subst hr2
          simp only at he
          cases he
          exact ⟨c2, Or.inl ⟨rfl, by rw [hfr2 h1 hne]; exact hl1, hl2⟩⟩
        · subst hr2
          simp only at he
          subst hb2
          cases hx3 : drop h1 a2 with
          | mk r3 a3 =>
            rw [hx3] at he
            simp only at he
            cases he
            obtain ⟨c3, _, hfr3, hz3⟩ := c2.drop (List.mem_cons_of_mem _ List.mem_cons_self) hx3
            exact ⟨c3, Or.inr ⟨⟨_, rfl⟩, hz3, by rw [hfr3 h2 (Ne.symm hne)]; exact hf2'⟩⟩
    · subst hr1
      simp only at he
      cases he
      subst hb1
      exact ⟨c1', Or.inr ⟨⟨_, rfl⟩, hf1, hf2⟩⟩

/-- `BDD.succ(u)`: at most the two given handles are created (both or none) -/
theorem aSucc_keepsL (hu h1 h2 : Nat) (hne : h1 ≠ h2) : AKeepsL off [h1, h2] (aSucc hu h1 h2) := by
  intro a hi hf r a' he
  have hf1 : a.handles[h1]? = none :=
    TreeMap.getElem?_eq_none_of_contains_eq_false (hf h1 List.mem_cons_self)
  have hf2 : a.handles[h2]? = none :=
    TreeMap.getElem?_eq_none_of_contains_eq_false (hf h2 (List.mem_cons_of_mem _ List.mem_cons_self))
  have trivial_case : ∀ {β : Type} (r : Except Err β), AInv off a ∧ (∀ j : Nat, j ∉ [h1, h2] → a.handles[j]? = a.handles[j]?) ∧
      (∀ (j : Nat) (u : Int), a.handles[j]? = some u →
        a.m.tbl.Mem u ∧ ∀ asg, denN a.m.tbl u asg = denN a.m.tbl u asg) :=
    fun _ => ⟨hi, fun _ _ => rfl, fun j u hj => ⟨hi.hmem j u hj, fun _ => rfl⟩⟩
  unfold aSucc at he
  rw [AM.bind_eq] at he
  have hr1 := nodeAny_read hu a
  cases hx1 : nodeAny hu a with
  | mk r1 a1 =>
    rw [hx1] at he hr1
    simp only at hr1
    subst hr1
    cases r1 with
    | error e => simp only at he; cases he; exact trivial_case (Except.error e : Except Err Unit)
    | ok u =>
      simp only at he
      rw [AM.bind_eq] at he
      have hr2 := ARead.liftE (fun m => succOf m.tbl u) a1
      cases hx2 : AM.liftE (fun m => succOf m.tbl u) a1 with
      | mk r2 a2 =>
        rw [hx2] at he hr2
        simp only at hr2
        subst hr2
        cases r2 with
        | error e => simp only at he; cases he; exact trivial_case (Except.error e : Except Err Unit)
        | ok p =>
          simp only at he
          obtain ⟨i, c⟩ := p
          cases c with
          | none => simp only at he; cases he; exact trivial_case (Except.ok () : Except Err Unit)
          | some vw =>
            obtain ⟨v, w⟩ := vw
            simp only at he
            rw [AM.bind_eq] at he
            cases hx3 : aSuccWrap h1 h2 v w a2 with
            | mk r3 a3 =>
              rw [hx3] at he
              obtain ⟨c3, _⟩ := aSuccWrap_spec a2 hi h1 h2 v w hne hf1 hf2 r3 a3 hx3
              have fin : AInv off a3 ∧ (∀ j : Nat, j ∉ [h1, h2] → a3.handles[j]? = a2.handles[j]?) ∧
                  (∀ (j : Nat) (u : Int), a2.handles[j]? = some u →
                    a3.m.tbl.Mem u ∧ ∀ asg, denN a3.m.tbl u asg = denN a2.m.tbl u asg) := by
                refine ⟨c3.inv, fun j hj => c3.same j (fun h => hj ?_), c3.den⟩
                simp only [List.mem_cons, List.not_mem_nil, or_false] at h ⊢
                exact h.symm
              cases r3 with
              | error e => simp only at he; cases he; exact fin
              | ok _ => simp only at he; cases he; exact fin

end DD.S
