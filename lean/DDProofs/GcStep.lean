/-
  DDProofs.GcStep — one iteration of the `while unused:` loop of `collect_garbage`
  (C06, part 2): popping a node with count 0 removes it from `_succ`, `_pred`, `_ref`,
  decrements its children, keeps the counts exact and keeps the structural invariant.
  The computed table is NOT valid during the loop (it is cleared at the end), so the
  loop invariant `InvS` is `Inv` without the cache clause.
-/
import DD.Gc
import DDProofs.RefCount
open Std

namespace DD

/-- the structural part of `Inv` (no cache clause; the `ref` domain is part of `RefExact`) -/
structure InvS (m : Mgr) : Prop where
  wf : WFU m.tbl
  pred : ∀ (n : Nd) (u : Nat), m.pred[n.key]? = some u ↔ m.tbl.node? u = some n
  freeGe : 2 ≤ m.minFree
  free : m.tbl.node? m.minFree = none

theorem Inv.toInvS {m : Mgr} (h : Inv m) : InvS m := ⟨h.wf, h.pred, h.freeGe, h.free⟩

theorem Inv.of_parts {m : Mgr} {ext : Nat → Nat} (hs : InvS m) (hr : RefExact m ext)
    (hc : ∀ g u v w, m.cache[iteKey g u v]? = some w → CacheEntryOK m.tbl g u v w) : Inv m := by
  refine ⟨hs.wf, hs.pred, hs.freeGe, hs.free, ?_, ?_, hc⟩
  · rw [TreeMap.contains_eq_isSome_getElem?]; exact (hr.dom 1).mpr (Or.inl rfl)
  · intro u n hn
    rw [TreeMap.contains_eq_isSome_getElem?]; exact (hr.dom u).mpr (Or.inr (by simp [hn]))

/-- removing a node nobody points to keeps the table reduced, ordered, closed and unique -/
theorem WFU_removed {t t' : Tbl} {u : Nat} {n : Nd} (h : t'.AddedAt t u n) (hv : t'.nvars = t.nvars)
    (hw : WFU t) (h0 : indeg t u = 0) : WFU t' := by
  have hsub : ∀ k x, t'.node? k = some x → t.node? k = some x := by
    intro k x hk
    by_cases hku : k = u
    · subst hku; rw [h.old] at hk; cases hk
    · rw [h.other k hku]; exact hk
  have hE : Ext t' t := ⟨hv, hsub⟩
  have hmem : ∀ (e : Int), t.Mem e → e.natAbs ≠ u → t'.Mem e := by
    intro e he hne
    rcases he with he | he
    · exact Or.inl he
    · exact Or.inr (by rw [← h.other _ hne]; exact he)
  have hlo : ∀ k x, t'.node? k = some x → t'.Mem x.lo := fun k x hk =>
    hmem _ (hw.lo_mem _ _ (hsub k x hk)) (fun he => by
      have := indeg_pos_of_lo (hsub k x hk); rw [he] at this; omega)
  have hhi : ∀ k x, t'.node? k = some x → t'.Mem x.hi := fun k x hk =>
    hmem _ (hw.hi_mem _ _ (hsub k x hk)) (fun he => by
      have := indeg_pos_of_hi (hsub k x hk); rw [he] at this; omega)
  refine ⟨⟨?_, hlo, hhi, ?_, ?_, ?_, ?_, ?_⟩, ?_⟩
  · intro k x hk; rw [hv]; exact hw.lvl_lt _ _ (hsub k x hk)
  · intro k x hk; rw [← hE.levelOf (hlo k x hk)]; exact hw.lo_lt _ _ (hsub k x hk)
  · intro k x hk; rw [← hE.levelOf (hhi k x hk)]; exact hw.hi_lt _ _ (hsub k x hk)
  · intro k x hk; exact hw.ge_two _ _ (hsub k x hk)
  · intro k x hk; exact hw.hi_pos _ _ (hsub k x hk)
  · intro k x hk; exact hw.lo_ne_hi _ _ (hsub k x hk)
  · intro k k' x hk hk'; exact hw.unique _ _ _ (hsub k x hk) (hsub k' x hk')

def gcErase (m : Mgr) (u : Nat) (n : Nd) : Mgr :=
  { m with tbl := { m.tbl with succ := m.tbl.succ.erase u }, pred := m.pred.erase n.key,
           ref := m.ref.erase u, minFree := min u m.minFree }

/-- the worklist after one step: children whose count dropped to 0 are added -/
def gcWork (n : Nd) (work : List Nat) (ra rb : Nat) : List Nat :=
  let rv := if n.hi.natAbs = n.lo.natAbs then rb else ra
  let work1 := if rv = 0 && n.lo.natAbs ≠ 1 then pushNew work n.lo.natAbs else work
  if rb = 0 && n.hi ≠ 1 then pushNew work1 n.hi.natAbs else work1

theorem gcStep_run (m : Mgr) (u : Nat) (n : Nd) (work : List Nat) (ra rb : Nat) (h1 : u ≠ 1)
    (hn : m.tbl.succ[u]? = some n) (hp : m.pred[n.key]? = some u) (hr : m.ref[u]? = some 0)
    (hf : 1 < min u m.minFree) (hau : n.lo.natAbs ≠ u) (hpos : 0 < n.hi)
    (hra : m.ref[n.lo.natAbs]? = some (ra + 1))
    (hrb : ((m.ref.erase u).insert n.lo.natAbs ra)[n.hi.natAbs]? = some (rb + 1)) :
    gcStep u work m = (.ok (gcWork n work ra rb),
      { gcErase m u n with ref := ((m.ref.erase u).insert n.lo.natAbs ra).insert n.hi.natAbs rb }) := by
  simp only [gcStep, bind, M.bind', M.get, M.modify, M.ofOption, M.assert, pure, M.pure', h1, if_false, hn, hp, hr]
  simp only [decide_true, if_true, M.pure', hf]
  have e1 : (m.ref.erase u)[n.lo.natAbs]? = some (ra + 1) := by
    rw [TreeMap.getElem?_erase]
    have : ¬ u = n.lo.natAbs := fun h => hau h.symm
    simp [this, hra]
  rw [decref_eq _ n.lo ra e1]
  simp only []
  rw [decref_eq _ n.hi rb hrb]
  simp only []
  have e2 : (((m.ref.erase u).insert n.lo.natAbs ra).insert n.hi.natAbs rb)[n.lo.natAbs]? =
      some (if n.hi.natAbs = n.lo.natAbs then rb else ra) := by
    rw [TreeMap.getElem?_insert, TreeMap.getElem?_insert]
    by_cases h : n.hi.natAbs = n.lo.natAbs <;> simp [h]
  rw [refOf_eq _ n.lo _ e2]
  simp only []
  have e3 : (((m.ref.erase u).insert n.lo.natAbs ra).insert n.hi.natAbs rb)[n.hi.toNat]? = some rb := by
    have : n.hi.toNat = n.hi.natAbs := by omega
    rw [this, TreeMap.getElem?_insert]; simp
  have hneg : ¬ n.hi < 0 := by omega
  simp only [refOfExact, hneg, if_false, e3]
  rfl

theorem gc_mem_pushNew (l : List Nat) (u k : Nat) : k ∈ pushNew l u ↔ k ∈ l ∨ k = u := by
  unfold pushNew
  split
  · next h =>
    have : u ∈ l := by simpa using h
    constructor
    · exact Or.inl
    · rintro (h | h)
      · exact h
      · subst h; exact this
  · simp

theorem gc_nodup_pushNew (l : List Nat) (u : Nat) (h : l.Nodup) : (pushNew l u).Nodup := by
  unfold pushNew
  split
  · exact h
  · next hc =>
    have : u ∉ l := by simpa using hc
    rw [List.nodup_append]
    refine ⟨h, by simp, ?_⟩
    intro a ha b hb
    simp at hb; subst hb
    intro he; subst he; exact this ha

theorem mem_two_push (work : List Nat) (a b : Nat) (p q : Bool) (k : Nat) :
    k ∈ (if q = true then pushNew (if p = true then pushNew work a else work) b
          else (if p = true then pushNew work a else work)) ↔
      (k ∈ work ∨ (k = a ∧ p = true) ∨ (k = b ∧ q = true)) := by
  cases p <;> cases q <;> simp [gc_mem_pushNew, or_assoc]

theorem mem_gcWork (n : Nd) (work : List Nat) (ra rb k : Nat) :
    k ∈ gcWork n work ra rb ↔ (k ∈ work ∨
      (k = n.lo.natAbs ∧ (if n.hi.natAbs = n.lo.natAbs then rb else ra) = 0 ∧ n.lo.natAbs ≠ 1) ∨
      (k = n.hi.natAbs ∧ rb = 0 ∧ n.hi ≠ 1)) := by
  simp only [gcWork]
  rw [mem_two_push]
  simp only [Bool.and_eq_true, decide_eq_true_eq]

theorem nodup_two_push (work : List Nat) (a b : Nat) (p q : Bool) (h : work.Nodup) :
    (if q = true then pushNew (if p = true then pushNew work a else work) b
          else (if p = true then pushNew work a else work)).Nodup := by
  cases p <;> cases q <;> simp only [if_true, if_false, Bool.false_eq_true] <;>
    first | exact h | exact gc_nodup_pushNew _ _ h | exact gc_nodup_pushNew _ _ (gc_nodup_pushNew _ _ h)

theorem nodup_gcWork (n : Nd) (work : List Nat) (ra rb : Nat) (h : work.Nodup) : (gcWork n work ra rb).Nodup := by
  simp only [gcWork]
  exact nodup_two_push _ _ _ _ _ h
/-- what one step of the collection loop establishes -/
structure GcStepPost (m : Mgr) (ext : Nat → Nat) (u : Nat) (n : Nd) (work : List Nat)
    (m' : Mgr) (work' : List Nat) : Prop where
  removed : m'.tbl.AddedAt m.tbl u n
  vars : m'.tbl.vars = m.tbl.vars
  l2v : m'.tbl.l2v = m.tbl.l2v
  pred : ∀ key, m'.pred[key]? = if key = n.key then none else m.pred[key]?
  minFree : m'.minFree = min u m.minFree
  cache : m'.cache = m.cache
  lastLen : m'.lastLen = m.lastLen
  ctx : m'.ctx = m.ctx
  fireIn : m'.fireIn = m.fireIn
  sched : m'.sched = m.sched
  roots : m'.roots = m.roots
  size : m'.tbl.succ.size + 1 = m.tbl.succ.size
  invS : InvS m'
  refExact : RefExact m' ext
  work_mem : ∀ k, k ∈ work' ↔
    (k ∈ work ∨ ((k = n.lo.natAbs ∨ k = n.hi.natAbs) ∧ k ≠ 1 ∧ m'.ref[k]? = some 0))
  work_nodup : work.Nodup → work'.Nodup

theorem gcStep_spec (m : Mgr) (ext : Nat → Nat) (u : Nat) (work : List Nat)
    (hs : InvS m) (hr : RefExact m ext) (h0 : m.ref[u]? = some 0) :
    ∃ n m' work', m.tbl.node? u = some n ∧ gcStep u work m = (.ok work', m') ∧
      GcStepPost m ext u n work m' work' := by
  have hW := hs.wf.toWF
  have hc0 := hr.cnt u 0 h0
  have hu1 : u ≠ 1 := by intro h; subst h; simp at hc0
  have hi0 : indeg m.tbl u = 0 := by omega
  have he0 : ext u = 0 := by omega
  have hnode : (m.tbl.node? u).isSome := by
    rcases (hr.dom u).mp (by simp [h0]) with h | h
    · exact absurd h hu1
    · exact h
  obtain ⟨n, hn⟩ := Option.isSome_iff_exists.mp hnode
  have hp : m.pred[n.key]? = some u := (hs.pred n u).mpr hn
  have hu2 := hW.ge_two _ _ hn
  have hf : 1 < min u m.minFree := by have := hs.freeGe; omega
  have hau : n.lo.natAbs ≠ u := fun he => by
    have := indeg_pos_of_lo hn; rw [he] at this; omega
  have hbu : n.hi.natAbs ≠ u := fun he => by
    have := indeg_pos_of_hi hn; rw [he] at this; omega
  have hpos := hW.hi_pos _ _ hn
  have hlne := hW.lo_ne_hi _ _ hn
  have ga := hr.get (hW.lo_mem _ _ hn)
  have gb := hr.get (hW.hi_mem _ _ hn)
  have ea := edgeCount_le_indeg hn n.lo.natAbs
  have eb := edgeCount_le_indeg hn n.hi.natAbs
  simp only [edgeCount, if_true] at ea eb
  -- the counts of the children after the decrements
  obtain ⟨ra, hra⟩ : ∃ ra, indeg m.tbl n.lo.natAbs + ext n.lo.natAbs + (if n.lo.natAbs = 1 then 1 else 0) = ra + 1 :=
    ⟨indeg m.tbl n.lo.natAbs - 1 + ext n.lo.natAbs + (if n.lo.natAbs = 1 then 1 else 0), by omega⟩
  rw [hra] at ga
  obtain ⟨rb, hrb, hrbv⟩ : ∃ rb, ((m.ref.erase u).insert n.lo.natAbs ra)[n.hi.natAbs]? = some (rb + 1) ∧
      rb + edgeCount n n.hi.natAbs = indeg m.tbl n.hi.natAbs + ext n.hi.natAbs + (if n.hi.natAbs = 1 then 1 else 0) := by
    rw [TreeMap.getElem?_insert, TreeMap.getElem?_erase]
    by_cases hab : n.lo.natAbs = n.hi.natAbs
    · have : ra = (ra - 1) + 1 := by
        rw [hab] at ea hra; simp only [hab, if_true] at eb; omega
      refine ⟨ra - 1, by simp only [hab, compare_eq_iff_eq, if_true]; rw [← this], ?_⟩
      simp only [edgeCount, hab, if_true]
      rw [hab] at hra; omega
    · have hbu' : ¬ u = n.hi.natAbs := fun h => hbu h.symm
      refine ⟨indeg m.tbl n.hi.natAbs - 1 + ext n.hi.natAbs + (if n.hi.natAbs = 1 then 1 else 0), ?_, ?_⟩
      · simp only [hab, hbu', compare_eq_iff_eq, if_false, gb]
        congr 1; omega
      · simp only [edgeCount, hab, if_true, if_false]; omega
  have hrun := gcStep_run m u n work ra rb hu1 hn hp h0 hf hau hpos ga hrb
  refine ⟨n, _, _, hn, hrun, ?_⟩
  -- the table after the step
  have hrem : ({ m.tbl with succ := m.tbl.succ.erase u } : Tbl).AddedAt m.tbl u n :=
    ⟨by simp [Tbl.node?], hn, fun j hj => by
      have : ¬ u = j := fun h => hj h.symm
      simp [Tbl.node?, TreeMap.getElem?_erase, this]⟩
  have hwfu : WFU ({ m.tbl with succ := m.tbl.succ.erase u } : Tbl) := WFU_removed hrem rfl hs.wf hi0
  have hR : ∀ k, (((m.ref.erase u).insert n.lo.natAbs ra).insert n.hi.natAbs rb)[k]? =
      if n.hi.natAbs = k then some rb else if n.lo.natAbs = k then some ra else if u = k then none else m.ref[k]? := by
    intro k
    simp only [TreeMap.getElem?_insert, TreeMap.getElem?_erase, compare_eq_iff_eq]
  have hRv : ∀ k c, (((m.ref.erase u).insert n.lo.natAbs ra).insert n.hi.natAbs rb)[k]? = some c →
      c + edgeCount n k = indeg m.tbl k + ext k + (if k = 1 then 1 else 0) := by
    intro k c
    rw [hR]
    by_cases h1 : n.hi.natAbs = k
    · simp only [h1, if_true, Option.some.injEq]
      intro hc; rw [← hc, ← h1]; exact hrbv
    · by_cases h2 : n.lo.natAbs = k
      · simp only [h1, h2, if_true, if_false, Option.some.injEq]
        intro hc
        simp only [edgeCount, h1, h2, if_true, if_false]
        rw [← hc, ← h2]; omega
      · by_cases h3 : u = k
        · simp [h1, h2, h3]
        · simp only [h1, h2, h3, if_false, edgeCount]
          intro hc; have := hr.cnt k c hc; omega
  have hsize : (m.tbl.succ.erase u).size + 1 = m.tbl.succ.size := by
    have hmem : u ∈ m.tbl.succ := by
      rw [TreeMap.mem_iff_isSome_getElem?]; simpa [Tbl.node?] using hnode
    have hne : m.tbl.succ.isEmpty = false :=
      TreeMap.isEmpty_eq_false_of_contains (TreeMap.mem_iff_contains.mp hmem)
    rw [TreeMap.isEmpty_eq_size_eq_zero] at hne
    rw [TreeMap.size_erase, if_pos (TreeMap.mem_iff_contains.mp hmem)]
    have : m.tbl.succ.size ≠ 0 := by simpa using hne
    omega
  have hmem' : ∀ e : Int, m.tbl.Mem e → e.natAbs ≠ u →
      (e.natAbs = 1 ∨ (({ m.tbl with succ := m.tbl.succ.erase u } : Tbl).node? e.natAbs).isSome) := by
    intro e he hne
    rcases he with he | he
    · exact Or.inl he
    · exact Or.inr (by rw [← hrem.other _ hne]; exact he)
  have hrefE : RefExact { gcErase m u n with ref := ((m.ref.erase u).insert n.lo.natAbs ra).insert n.hi.natAbs rb } ext := by
    refine ⟨?_, ?_, ?_⟩
    · intro k
      show ((((m.ref.erase u).insert n.lo.natAbs ra).insert n.hi.natAbs rb)[k]?).isSome ↔
        (k = 1 ∨ (({ m.tbl with succ := m.tbl.succ.erase u } : Tbl).node? k).isSome)
      rw [hR]
      by_cases h1 : n.hi.natAbs = k
      · simp only [h1, if_true, Option.isSome_some, true_iff]
        rw [← h1]; exact hmem' _ (hW.hi_mem _ _ hn) hbu
      · by_cases h2 : n.lo.natAbs = k
        · simp only [h1, h2, if_true, if_false, Option.isSome_some, true_iff]
          rw [← h2]; exact hmem' _ (hW.lo_mem _ _ hn) hau
        · by_cases h3 : u = k
          · simp only [h1, h2, h3, if_true, if_false]
            rw [← h3, hrem.old]; simp [hu1]
          · simp only [h1, h2, h3, if_false]
            rw [hr.dom k, hrem.other k (fun h => h3 h.symm)]
    · intro k c hc
      have h1 := hRv k c hc
      show c = indeg ({ m.tbl with succ := m.tbl.succ.erase u } : Tbl) k + ext k + (if k = 1 then 1 else 0)
      rw [indeg_removed hrem k]
      have := edgeCount_le_indeg hn k
      omega
    · intro k
      show (((m.ref.erase u).insert n.lo.natAbs ra).insert n.hi.natAbs rb)[k]? = none → ext k = 0
      rw [hR]
      by_cases h1 : n.hi.natAbs = k
      · simp [h1]
      · by_cases h2 : n.lo.natAbs = k
        · simp [h1, h2]
        · by_cases h3 : u = k
          · intro _; rw [← h3]; exact he0
          · simp only [h1, h2, h3, if_false]; exact hr.extZero k
  have hRa : (((m.ref.erase u).insert n.lo.natAbs ra).insert n.hi.natAbs rb)[n.lo.natAbs]? =
      some (if n.hi.natAbs = n.lo.natAbs then rb else ra) := by
    rw [hR]; by_cases h : n.hi.natAbs = n.lo.natAbs <;> simp [h]
  have hRb : (((m.ref.erase u).insert n.lo.natAbs ra).insert n.hi.natAbs rb)[n.hi.natAbs]? = some rb := by
    rw [hR]; simp
  have hb1 : n.hi ≠ 1 ↔ n.hi.natAbs ≠ 1 := by omega
  refine ⟨hrem, rfl, rfl, ?_, rfl, rfl, rfl, rfl, rfl, rfl, rfl, hsize, ⟨hwfu, ?_, ?_, ?_⟩, hrefE, ?_, ?_⟩
  · intro key
    show (m.pred.erase n.key)[key]? = _
    rw [TreeMap.getElem?_erase]
    by_cases h : n.key = key
    · simp [h]
    · have : ¬ key = n.key := fun h' => h h'.symm
      simp [h, this]
  · intro x k
    show (m.pred.erase n.key)[x.key]? = some k ↔ ({ m.tbl with succ := m.tbl.succ.erase u } : Tbl).node? k = some x
    rw [TreeMap.getElem?_erase]
    by_cases h : n.key = x.key
    · have hx : n = x := Nd.key_inj h
      subst hx
      simp only [compare_eq_iff_eq, if_true]
      constructor
      · intro h'; cases h'
      · intro h'
        exfalso
        by_cases hk : k = u
        · subst hk; rw [hrem.old] at h'; cases h'
        · rw [← hrem.other k hk] at h'
          exact hk (hs.wf.unique _ _ _ h' hn)
    · simp only [h, compare_eq_iff_eq, if_false]
      rw [hs.pred x k]
      by_cases hk : k = u
      · subst hk
        rw [hrem.old, hn]
        constructor
        · intro h'; cases h'; exact absurd rfl h
        · intro h'; cases h'
      · rw [hrem.other k hk]
  · show 2 ≤ min u m.minFree
    have := hs.freeGe; omega
  · show ({ m.tbl with succ := m.tbl.succ.erase u } : Tbl).node? (min u m.minFree) = none
    by_cases h : u ≤ m.minFree
    · rw [Nat.min_eq_left h]; exact hrem.old
    · have h' : m.minFree ≤ u := by omega
      rw [Nat.min_eq_right h', ← hrem.other _ (by omega)]; exact hs.free
  · intro k
    show k ∈ gcWork n work ra rb ↔ (k ∈ work ∨ ((k = n.lo.natAbs ∨ k = n.hi.natAbs) ∧ k ≠ 1 ∧
      (((m.ref.erase u).insert n.lo.natAbs ra).insert n.hi.natAbs rb)[k]? = some 0))
    rw [mem_gcWork]
    constructor
    · rintro (h | ⟨h1, h2, h3⟩ | ⟨h1, h2, h3⟩)
      · exact Or.inl h
      · exact Or.inr ⟨Or.inl h1, by rw [h1]; exact h3, by rw [h1, hRa, h2]⟩
      · exact Or.inr ⟨Or.inr h1, by rw [h1]; exact hb1.mp h3, by rw [h1, hRb, h2]⟩
    · rintro (h | ⟨h1 | h1, h2, h3⟩)
      · exact Or.inl h
      · rw [h1, hRa] at h3
        exact Or.inr (Or.inl ⟨h1, Option.some.inj h3, by rw [← h1]; exact h2⟩)
      · rw [h1, hRb] at h3
        exact Or.inr (Or.inr ⟨h1, Option.some.inj h3, hb1.mpr (by rw [← h1]; exact h2)⟩)
  · intro hnd
    exact nodup_gcWork _ _ _ _ hnd

end DD
