/-
  DDProofs.DynOps — instances of the generic transparency theorem
  (`tryToReorder_transparent`) for the decorated entry points `ite`, `var`, `quantify`
  (`exist` / `forall`), `cofactor`: the level-indexed specifications of the recursions are
  restated by variable NAME (`denN`), which makes them stable under a change of order.
-/
import DDProofs.DynGeneric
open Std

namespace DD

/-! ### names and levels under `OrderOK` -/

theorem OrderOK.nameOf_eq {t : Tbl} {i : Nat} {v : String} (hl : t.l2v[i]? = some v) :
    t.nameOf i = v := by simp [Tbl.nameOf, hl]

/-- the name at the level of a declared variable is that variable -/
theorem OrderOK.nameOf_level {t : Tbl} (h : OrderOK t) {s : String} {i : Nat}
    (hv : t.vars[s]? = some i) : t.nameOf i = s :=
  OrderOK.nameOf_eq ((h.inv s i).mp hv)

/-- the level of the name at a level below `nvars` is that level -/
theorem OrderOK.vars_nameOf {t : Tbl} (h : OrderOK t) {i : Nat} (hi : i < t.nvars) :
    t.vars[t.nameOf i]? = some i := by
  obtain ⟨v, hv⟩ := h.total i hi
  rw [OrderOK.nameOf_eq hv]
  exact (h.inv v i).mpr hv

theorem OrderOK.lvlOf_nameOf {t : Tbl} (h : OrderOK t) {i : Nat} (hi : i < t.nvars) :
    lvlOf t (t.nameOf i) = i := lvlOf_eq (h.vars_nameOf hi)

/-- for a declared name: its level is `i` iff it is the name at level `i` -/
theorem OrderOK.lvlOf_eq_iff {t : Tbl} (h : OrderOK t) {s : String}
    (hs : t.vars.contains s = true) {i : Nat} (hi : i < t.nvars) :
    lvlOf t s = i ↔ s = t.nameOf i := by
  obtain ⟨j, hj⟩ := (vars_contains_iff t s).mp hs
  rw [lvlOf_eq hj]
  constructor
  · intro e; subst e; exact (h.nameOf_level hj).symm
  · intro e
    have := h.vars_nameOf hi
    rw [← e, hj] at this
    exact Option.some.inj this

theorem OrderOK.lvlOf_lt {t : Tbl} (h : OrderOK t) {s : String} (hs : t.vars.contains s = true) :
    lvlOf t s < t.nvars := by
  obtain ⟨j, hj⟩ := (vars_contains_iff t s).mp hs
  rw [lvlOf_eq hj]; exact h.lt s j hj

/-- two name assignments that agree on the declared names give the same value -/
theorem denN_congr_decl {t : Tbl} (hw : WF t) (hO : OrderOK t) (u : Int) (hu : t.Mem u) (σ τ : AsgN)
    (h : ∀ s, t.vars.contains s = true → σ s = τ s) : denN t u σ = denN t u τ := by
  unfold denN
  apply den_agree_ge t hw u hu
  intro i _ hi
  show σ (t.nameOf i) = τ (t.nameOf i)
  exact h _ ((vars_contains_iff t _).mpr ⟨i, hO.vars_nameOf hi⟩)

/-- a level assignment read as a name assignment (undeclared names from `σ`) -/
def unlift (t : Tbl) (b : Asg) (σ : AsgN) : AsgN := fun s =>
  match t.vars[s]? with
  | some i => b i
  | none => σ s

theorem den_unlift {t : Tbl} (hw : WF t) (hO : OrderOK t) (u : Int) (hu : t.Mem u) (b : Asg)
    (σ : AsgN) : denN t u (unlift t b σ) = den t u b := by
  unfold denN
  apply den_agree_ge t hw u hu
  intro i _ hi
  show unlift t b σ (t.nameOf i) = b i
  simp [unlift, hO.vars_nameOf hi]

/-! ### `ite` -/

/-- documented result of `ite(g, u, v)`, by name -/
def IteDoc (g u v : Int) (t : Tbl) (r : Int) (t' : Tbl) : Prop :=
  t'.Mem r ∧ ∀ σ, denN t' r σ = if denN t g σ then denN t u σ else denN t v σ

/-- C09 for `ite` from the generic theorem: the operands are references the user holds -/
theorem ite_transparent (ext : Nat → Nat) (hS : SiftContract ext) (m : Mgr) (hD : DynInv ext m)
    (g u v : Int) (hg : HeldX ext g) (hu : HeldX ext u) (hv : HeldX ext v) :
    ∃ r m', ite g u v m = (.ok r, m') ∧ DynPostG ext (IteDoc g u v) m r m' := by
  unfold ite
  refine tryToReorder_transparent ext hS (iteRaw g u v) [g, u, v] (fun _ => True) (IteDoc g u v)
    ?_ (fun _ _ _ _ => trivial) ?_ m hD ?_ trivial
  · intro m0 hI0 _ _ _ hmem
    have mg := hmem g (by simp)
    have mu := hmem u (by simp)
    have mv := hmem v (by simp)
    rw [iteRaw_eq]
    refine (iteF_out (m0.nvars + 2) m0 g u v hI0 mg mu mv (by omega)).mono ?_
    intro r m1 _ hp
    refine ⟨hp.mem, fun σ => ?_⟩
    have hl : m1.tbl.l2v = m0.tbl.l2v := hp.frame.l2v
    unfold denN Tbl.lift Tbl.nameOf
    rw [hl, hp.den]
  · intro t t' r t'' hB _ hd
    refine ⟨hd.1, fun σ => ?_⟩
    rw [hd.2 σ, (hB.ops g (by simp)).2 σ, (hB.ops u (by simp)).2 σ, (hB.ops v (by simp)).2 σ]
  · intro w hw
    simp only [List.mem_cons, List.not_mem_nil, or_false] at hw
    rcases hw with rfl | rfl | rfl
    · exact hg
    · exact hu
    · exact hv

/-! ### `var` -/

/-- the body of `BDD.var` -/
def dynVarBody (name : String) : M Int := do
  let m ← M.get
  match m.tbl.vars[name]? with
  | none => M.throw .value
  | some j => findOrAdd j (-1) 1

theorem var_eq_dynVarBody (name : String) : var name = tryToReorder (dynVarBody name) := rfl

/-- documented result of `var(name)`: the projection on that name -/
def VarDoc (name : String) (_t : Tbl) (r : Int) (t' : Tbl) : Prop :=
  t'.Mem r ∧ ∀ σ, denN t' r σ = σ name

theorem var_transparent (ext : Nat → Nat) (hS : SiftContract ext) (m : Mgr) (hD : DynInv ext m)
    (name : String) (hdecl : m.tbl.vars.contains name = true) :
    ∃ r m', var name m = (.ok r, m') ∧ DynPostG ext (VarDoc name) m r m' := by
  rw [var_eq_dynVarBody]
  refine tryToReorder_transparent ext hS (dynVarBody name) [] (fun t => t.vars.contains name = true)
    (VarDoc name) ?_ ?_ (fun _ _ _ _ _ _ hd => hd) m hD (fun _ h => by cases h) hdecl
  · intro m0 hI0 _ hO hpre _
    obtain ⟨j, hj⟩ := (vars_contains_iff m0.tbl name).mp hpre
    have hb : dynVarBody name m0 = findOrAdd (j : Int) (-1) 1 m0 := by
      simp [dynVarBody, bind, M.bind', M.get, hj]
    rw [hb]
    refine (varNode_out m0 hI0 j (hO.lt name j hj)).mono ?_
    intro g m1 hs ⟨hg, _, hd⟩
    refine ⟨hg, fun σ => ?_⟩
    unfold denN
    rw [hd]
    show σ (m1.tbl.nameOf j) = σ name
    have hl : m1.tbl.l2v = m0.tbl.l2v := hs.frame.l2v
    have : m1.tbl.nameOf j = name := by
      unfold Tbl.nameOf; rw [hl]; exact hO.nameOf_level hj
    rw [this]
  · intro t t' hB hpre
    rw [hB.names name]; exact hpre

/-! ### `quantify` -/

/-- quantification of a function of the variable names over the names of `names` -/
def qsemN (fa : Bool) (names : List String) (F : AsgN → Bool) (σ : AsgN) : Prop :=
  match fa with
  | true => ∀ τ : AsgN, (∀ s, s ∉ names → τ s = σ s) → F τ = true
  | false => ∃ τ : AsgN, (∀ s, s ∉ names → τ s = σ s) ∧ F τ = true

/-- from a level assignment that agrees with `σ` off the quantified levels to a name assignment
that agrees with `σ` off the quantified names, with the same value -/
theorem qsem_to_names {t : Tbl} (hw : WF t) (hO : OrderOK t) (u : Int) (hu : t.Mem u)
    (names : List String) (hdecl : ∀ s ∈ names, t.vars.contains s = true) (σ : AsgN) (b : Asg)
    (hb : AgreeOff (names.map (lvlOf t)) b (t.lift σ)) :
    ∃ τ : AsgN, (∀ s, s ∉ names → τ s = σ s) ∧ denN t u τ = den t u b := by
  refine ⟨unlift t b σ, ?_, den_unlift hw hO u hu b σ⟩
  intro s hs
  unfold unlift
  cases hv : t.vars[s]? with
  | none => rfl
  | some i =>
    simp only
    have hi : i ∉ names.map (lvlOf t) := by
      intro hmem
      obtain ⟨s', hs', he⟩ := List.mem_map.mp hmem
      obtain ⟨j, hj⟩ := (vars_contains_iff t s').mp (hdecl s' hs')
      rw [lvlOf_eq hj] at he
      subst he
      have e1 := hO.nameOf_level hj
      have e2 := hO.nameOf_level hv
      rw [e1] at e2
      subst e2
      exact hs hs'
    rw [hb i hi]
    show σ (t.nameOf i) = σ s
    rw [hO.nameOf_level hv]

/-- and back -/
theorem qsem_of_names {t : Tbl} (hw : WF t) (hO : OrderOK t) (u : Int) (hu : t.Mem u)
    (names : List String) (σ τ : AsgN)
    (hτ : ∀ s, s ∉ names → τ s = σ s) :
    ∃ b : Asg, AgreeOff (names.map (lvlOf t)) b (t.lift σ) ∧ den t u b = denN t u τ := by
  refine ⟨fun j => if j < t.nvars then t.lift τ j else t.lift σ j, ?_, ?_⟩
  · intro j hj
    by_cases hlt : j < t.nvars
    · simp only [hlt, if_true]
      show τ (t.nameOf j) = σ (t.nameOf j)
      apply hτ
      intro hmem
      exact hj (List.mem_map.mpr ⟨_, hmem, hO.lvlOf_nameOf hlt⟩)
    · simp [hlt]
  · unfold denN
    apply den_agree_ge t hw u hu
    intro i _ hi
    simp [hi]

/-- quantification over levels, read on name assignments, is quantification over names -/
theorem qsem_lift {t : Tbl} (hw : WF t) (hO : OrderOK t) (u : Int) (hu : t.Mem u) (fa : Bool)
    (names : List String) (hdecl : ∀ s ∈ names, t.vars.contains s = true) (σ : AsgN) :
    qsem fa (names.map (lvlOf t)) (den t u) (t.lift σ) ↔ qsemN fa names (denN t u) σ := by
  cases fa with
  | true =>
    simp only [qsem, qsemN]
    constructor
    · intro h τ hτ
      obtain ⟨b, hb, he⟩ := qsem_of_names hw hO u hu names σ τ hτ
      rw [← he]; exact h b hb
    · intro h b hb
      obtain ⟨τ, hτ, he⟩ := qsem_to_names hw hO u hu names hdecl σ b hb
      rw [← he]; exact h τ hτ
  | false =>
    simp only [qsem, qsemN]
    constructor
    · intro ⟨b, hb, hv⟩
      obtain ⟨τ, hτ, he⟩ := qsem_to_names hw hO u hu names hdecl σ b hb
      exact ⟨τ, hτ, by rw [he]; exact hv⟩
    · intro ⟨τ, hτ, hv⟩
      obtain ⟨b, hb, he⟩ := qsem_of_names hw hO u hu names σ τ hτ
      exact ⟨b, hb, by rw [he]; exact hv⟩

/-- documented result of `quantify(u, names, forall)`, by name -/
def QuantDoc (fa : Bool) (names : List String) (u : Int) (t : Tbl) (r : Int) (t' : Tbl) : Prop :=
  t'.Mem r ∧ ∀ σ, denN t' r σ = true ↔ qsemN fa names (denN t u) σ

/-- body of `quantify` on declared names, inside a context: documented result by name, or abort -/
theorem quantifyBody_out (m0 : Mgr) (hI0 : Inv m0) (hq : Quiet m0) (hO : OrderOK m0.tbl) (u : Int)
    (hu : m0.tbl.Mem u) (fa : Bool) (names : List String)
    (hdecl : ∀ s ∈ names, m0.tbl.vars.contains s = true) :
    Outcome m0 (fun r m1 => QuantDoc fa names u m0.tbl r m1.tbl)
      (quantifyBody u (names.map Key.name) fa m0) := by
  have hW := hI0.wf.toWF
  unfold quantifyBody
  rw [mapToLevelE_names m0.tbl names hdecl]
  simp only
  rcases (quantifyF_out (names.map (lvlOf m0.tbl)) fa (m0.nvars + 2) m0 u
    (sortNat (dedup (names.map (lvlOf m0.tbl)))) {} hI0 hq hu (QMemo.empty _ _ _)
    (fun j hj _ => (mem_ordvar j _).mpr hj) (by omega)).cases with
    ⟨r, c, m1, he, hs, _, hp⟩ | ⟨m1, he, hs, ha⟩
  rotate_left
  · rw [he]; exact ⟨rfl, hs, ha⟩
  rw [he]
  refine ⟨hs, hp.mr, fun σ => ?_⟩
  have hl : m1.tbl.lift σ = m0.tbl.lift σ := by
    unfold Tbl.lift Tbl.nameOf; rw [hs.frame.l2v]
  unfold denN
  rw [hp.den, hl, den_ext_fun hs.ext hW u hu]
  exact qsem_lift hW hO u hu fa names hdecl σ

theorem qsemN_congr (fa : Bool) (names : List String) (F G : AsgN → Bool) (h : ∀ τ, F τ = G τ)
    (σ : AsgN) : qsemN fa names F σ ↔ qsemN fa names G σ := by
  have : F = G := funext h
  rw [this]

/-- C09 for `quantify` / `exist` / `forall` over declared variable names -/
theorem quantify_transparent (ext : Nat → Nat) (hS : SiftContract ext) (m : Mgr)
    (hD : DynInv ext m) (u : Int) (hu : HeldX ext u) (fa : Bool) (names : List String)
    (hdecl : ∀ s ∈ names, m.tbl.vars.contains s = true) :
    ∃ r m', quantify u (names.map Key.name) fa m = (.ok r, m') ∧
      DynPostG ext (QuantDoc fa names u) m r m' := by
  unfold quantify
  refine tryToReorder_transparent ext hS (quantifyBody u (names.map Key.name) fa) [u]
    (fun t => ∀ s ∈ names, t.vars.contains s = true) (QuantDoc fa names u) ?_ ?_ ?_ m hD ?_ hdecl
  · intro m0 hI0 hc hO hpre hmem
    exact quantifyBody_out m0 hI0 (Or.inl hc) hO u (hmem u (by simp)) fa names hpre
  · intro t t' hB hpre s hs
    rw [hB.names s]; exact hpre s hs
  · intro t t' r t'' hB _ hd
    refine ⟨hd.1, fun σ => ?_⟩
    rw [hd.2 σ]
    exact qsemN_congr fa names _ _ (fun τ => (hB.ops u (by simp)).2 τ) σ
  · intro w hw
    simp only [List.mem_cons, List.not_mem_nil, or_false] at hw
    subst hw; exact hu

/-! ### `cofactor` -/

/-- the name assignment `σ` overridden by a dictionary (a later item of a name wins) -/
def ovrN (vals : List (String × Bool)) (σ : AsgN) : AsgN := fun s =>
  match vals.reverse.lookup s with
  | some b => b
  | none => σ s

/-- looking a level up in a dictionary keyed by the levels of declared names -/
theorem lookup_lvlOf {β} {t : Tbl} (hO : OrderOK t) {i : Nat} (hi : i < t.nvars) :
    ∀ l : List (String × β), (∀ p ∈ l, t.vars.contains p.1 = true) →
      (l.map fun p => (lvlOf t p.1, p.2)).lookup i = l.lookup (t.nameOf i) := by
  intro l
  induction l with
  | nil => intro _; rfl
  | cons p l ih =>
    intro h
    obtain ⟨s, b⟩ := p
    have hs : t.vars.contains s = true := h (s, b) List.mem_cons_self
    have ih' := ih (fun p hp => h p (List.mem_cons_of_mem _ hp))
    rw [List.map_cons, List.lookup_cons, List.lookup_cons, ih']
    by_cases he : lvlOf t s = i
    · have hn : s = t.nameOf i := (hO.lvlOf_eq_iff hs hi).mp he
      have h1 : (i == lvlOf t s) = true := by simp [he]
      have h2 : (t.nameOf i == s) = true := by simp [← hn]
      simp only [h1, h2]
    · have hne : ¬ s = t.nameOf i := fun e => he ((hO.lvlOf_eq_iff hs hi).mpr e)
      have h1 : (i == lvlOf t s) = false := by
        simp only [beq_eq_false_iff_ne, ne_eq]; exact fun e => he e.symm
      have h2 : (t.nameOf i == s) = false := by
        simp only [beq_eq_false_iff_ne, ne_eq]; exact fun e => hne e.symm
      simp only [h1, h2]

/-- documented result of `cofactor(u, vals)` (= `let` with Boolean values), by name -/
def CofDoc (vals : List (String × Bool)) (u : Int) (t : Tbl) (r : Int) (t' : Tbl) : Prop :=
  t'.Mem r ∧ ∀ σ, denN t' r σ = denN t u (ovrN vals σ)

/-- the dictionary `{name: bool}` as the model's argument of `cofactor` -/
def boolKeys (vals : List (String × Bool)) : List (Key × Bool) :=
  vals.map fun p => (Key.name p.1, p.2)

theorem cofactorBody_out (m0 : Mgr) (hI0 : Inv m0) (hO : OrderOK m0.tbl) (u : Int)
    (hu : m0.tbl.Mem u) (vals : List (String × Bool))
    (hdecl : ∀ p ∈ vals, m0.tbl.vars.contains p.1 = true) :
    Outcome m0 (fun r m1 => CofDoc vals u m0.tbl r m1.tbl) (cofactorBody u (boolKeys vals) m0) := by
  have hW := hI0.wf.toWF
  have hk : (boolKeys vals).map (·.1) = (vals.map (·.1)).map Key.name := by
    simp [boolKeys, List.map_map, Function.comp_def]
  have hb : (boolKeys vals).map (·.2) = vals.map (·.2) := by
    simp [boolKeys, List.map_map, Function.comp_def]
  have hdecl' : ∀ s ∈ vals.map (·.1), m0.tbl.vars.contains s = true := by
    intro s hs
    obtain ⟨p, hp, rfl⟩ := List.mem_map.mp hs
    exact hdecl p hp
  unfold cofactorBody
  rw [hk, mapToLevelE_names m0.tbl _ hdecl', hb]
  have hmem : m0.mem u = true := (Mgr.mem_iff m0 u).mpr hu
  simp only [hmem, Bool.not_true, Bool.false_eq_true, if_false]
  generalize hlv : (vals.map (·.1)).map (lvlOf m0.tbl) = lv
  have hlvals : (lv.zip (vals.map (·.2))).reverse =
      (vals.reverse.map fun p => (lvlOf m0.tbl p.1, p.2)) := by
    rw [← hlv, List.map_map, List.zip_map', List.map_reverse]
    rfl
  rcases (cofactorF_out ((lv.zip (vals.map (·.2))).reverse) (m0.nvars + 2) m0 u
    (sortNat (dedup lv)) {} hI0 hu (CofMemo.empty _ _)
    (fun j hj _ => (mem_ordvar j lv).mpr (lookup_zip_reverse_mem lv _ j hj)) (by omega)).cases with
    ⟨r, c, m1, he, hs, _, hp⟩ | ⟨m1, he, hs, ha⟩
  rotate_left
  · rw [he]; exact ⟨rfl, hs, ha⟩
  rw [he]
  refine ⟨hs, hp.mr, fun σ => ?_⟩
  have hl : m1.tbl.lift σ = m0.tbl.lift σ := by
    unfold Tbl.lift Tbl.nameOf; rw [hs.frame.l2v]
  unfold denN
  rw [hp.den, hl, den_ext hs.ext hW u _ hu]
  apply den_agree_ge m0.tbl hW u hu
  intro i _ hi
  show ovr _ (m0.tbl.lift σ) i = ovrN vals σ (m0.tbl.nameOf i)
  unfold ovr ovrN
  rw [hlvals, lookup_lvlOf hO hi vals.reverse (fun p hp => hdecl p (List.mem_reverse.mp hp))]
  rfl

/-- C09 for `cofactor` (`let` with Boolean values) on declared variable names -/
theorem cofactor_transparent (ext : Nat → Nat) (hS : SiftContract ext) (m : Mgr)
    (hD : DynInv ext m) (u : Int) (hu : HeldX ext u) (vals : List (String × Bool))
    (hdecl : ∀ p ∈ vals, m.tbl.vars.contains p.1 = true) :
    ∃ r m', cofactor u (boolKeys vals) m = (.ok r, m') ∧ DynPostG ext (CofDoc vals u) m r m' := by
  unfold cofactor
  refine tryToReorder_transparent ext hS (cofactorBody u (boolKeys vals)) [u]
    (fun t => ∀ p ∈ vals, t.vars.contains p.1 = true) (CofDoc vals u) ?_ ?_ ?_ m hD ?_ hdecl
  · intro m0 hI0 _ hO hpre hmem
    exact cofactorBody_out m0 hI0 hO u (hmem u (by simp)) vals hpre
  · intro t t' hB hpre p hp
    rw [hB.names p.1]; exact hpre p hp
  · intro t t' r t'' hB _ hd
    refine ⟨hd.1, fun σ => ?_⟩
    rw [hd.2 σ, (hB.ops u (by simp)).2]
  · intro w hw
    simp only [List.mem_cons, List.not_mem_nil, or_false] at hw
    subst hw; exact hu

end DD
