/-
  DDProofs.MddConv — the MDD half of `bdd_to_mdd`: the main loop
  (`for u in bdd.levels(...)`: cofactor per integer value, map the edges through `umap`,
  `mdd.find_or_add`) keeps "every `umap` entry denotes the intended function of its BDD node",
  under a hypothesis that names what the BDD side (reorder into zones + `cofactor`) must deliver.
-/
import DDProofs.MddReach
open Std

namespace DD

/-- every entry of `umap` is an MDD reference that denotes the intended function `S x` of the
BDD node `x` and sits at or below the MDD level `L x` of the zone of `x` -/
structure UmapOK (S : Int → MAsg → Bool) (L : Nat → Nat) (mdd : MddMgr) (umap : List (Nat × Int)) : Prop where
  ok : ∀ x r, umap.lookup x = some r →
    mdd.tbl.Mem r ∧ L x ≤ mdd.tbl.levelOf r ∧ ∀ α, MValid mdd.tbl α → denM mdd.tbl r α = S (x : Int) α

/-- what the BDD side of one iteration must deliver for the kept node `u` (this is where
theorems about `reorder` — bits in zones — and `cofactor` enter): the `i`-th successor is the
`umap` image (complemented when the BDD reference is) of a reference `x` in a later zone which
agrees with `u` wherever the integer variable has the value `i` -/
def BddSideOK (S : Int → MAsg → Bool) (L : Nat → Nat) (u : Nat) (umap : List (Nat × Int))
    (var : MVar) (succs : List Int) : Prop :=
  L u = var.level ∧
  ∀ i k, succs[i]? = some k →
    ∃ (x : Int) (r : Int), umap.lookup x.natAbs = some r ∧ k = (if x > 0 then r else -r) ∧ x ≠ 0 ∧
      var.level < L x.natAbs ∧ ∀ α, α var.level = i → S x α = S (u : Int) α

theorem mLookup_filter_ne (u x : Nat) (hx : x ≠ u) :
    ∀ l : List (Nat × Int), (l.filter (fun p => p.1 ≠ u)).lookup x = l.lookup x
  | [] => rfl
  | (a, b) :: rest => by
    have ih := mLookup_filter_ne u x hx rest
    by_cases ha : a = u
    · have hxa : (x == a) = false := by rw [ha]; simpa using hx
      have hf : ((a, b) :: rest).filter (fun p => p.1 ≠ u) = rest.filter (fun p => p.1 ≠ u) := by
        simp [List.filter_cons, ha]
      rw [hf, ih]
      simp [List.lookup_cons, hxa]
    · have hf : ((a, b) :: rest).filter (fun p => p.1 ≠ u) = (a, b) :: rest.filter (fun p => p.1 ≠ u) := by
        simp [List.filter_cons, ha]
      rw [hf]
      simp only [List.lookup_cons]
      rw [ih]

theorem lookup_cons_filter (u : Nat) (r : Int) (umap : List (Nat × Int)) (x : Nat) :
    ((u, r) :: umap.filter (fun p => p.1 ≠ u)).lookup x = if x = u then some r else umap.lookup x := by
  by_cases hx : x = u
  · subst hx; simp [List.lookup_cons]
  · have h1 : (x == u) = false := by simpa using hx
    simp only [List.lookup_cons, h1, hx, if_false]
    exact mLookup_filter_ne u x hx umap

/-- one iteration, MDD side: `find_or_add` of the mapped cofactors extends a sound `umap` -/
theorem umap_step (S : Int → MAsg → Bool) (L : Nat → Nat)
    (hSneg : ∀ x α, x ≠ 0 → S (-x) α = !S x α)
    (mdd : MddMgr) (umap : List (Nat × Int)) (h : MInv mdd) (hU : UmapOK S L mdd umap)
    (u : Nat) (var : MVar) (succs : List Int) (hB : BddSideOK S L u umap var succs)
    (r : Int) (mdd1 : MddMgr) (hfoa : mFindOrAdd (var.level : Int) succs mdd = (.ok r, mdd1)) :
    MInv mdd1 ∧ MExt mdd.tbl mdd1.tbl ∧
    UmapOK S L mdd1 ((u, r) :: umap.filter (fun p => p.1 ≠ u)) ∧
    (∀ dv ext, MReach dv mdd ext → MReach dv mdd1 ext) := by
  obtain ⟨hLu, hsuccs⟩ := hB
  have hW := h.wf.toMWF
  -- precondition of find_or_add: every successor is below the level of the variable
  have hlt : ∀ k ∈ succs, ((var.level : Nat) : Int).toNat < mdd.tbl.levelOf k := by
    intro k hk
    obtain ⟨i, hi, hki⟩ := List.getElem_of_mem hk
    obtain ⟨x, r', hlk, hkx, _, hlvl, _⟩ := hsuccs i k (by rw [List.getElem?_eq_getElem hi, hki])
    obtain ⟨_, hLr, _⟩ := hU.ok _ _ hlk
    have : mdd.tbl.levelOf k = mdd.tbl.levelOf r' := by
      rw [hkx]; split
      · rfl
      · exact mdd.tbl.levelOf_neg r'
    rw [this]
    simp only [Int.toNat_natCast]
    omega
  have hreach : ∀ dv ext, MReach dv mdd ext → MReach dv mdd1 ext :=
    fun dv ext hR => MReach.foa _ succs r mdd1 hR hlt hfoa
  unfold mFindOrAdd at hfoa
  split at hfoa
  · next hneg => omega
  · have F := mFindOrAddCore_spec mdd h _ succs hlt r mdd1 hfoa
    simp only [Int.toNat_natCast] at F
    have hW1 := F.inv.wf.toMWF
    refine ⟨F.inv, F.ext, ?_, hreach⟩
    constructor
    intro x rx hl
    rw [lookup_cons_filter] at hl
    by_cases hxu : x = u
    · subst hxu
      simp only [if_true, Option.some.injEq] at hl
      subst hl
      refine ⟨F.mem, by rw [hLu]; exact F.lvl, ?_⟩
      intro α hα
      have hαm : MValid mdd.tbl α := (F.ext.valid α).mpr hα
      have hvl : var.level < mdd.tbl.nvars := by
        -- find_or_add succeeded, so the level is a level of the manager
        by_cases hc : var.level < mdd.tbl.nvars
        · exact hc
        · exfalso
          unfold mFindOrAddCore at hfoa
          have : mdd.tbl.nvars ≤ var.level := by omega
          simp [this] at hfoa
      have hidx : α var.level < succs.length := by
        rw [F.len]; exact hαm _ hvl
      obtain ⟨x', r', hlk, hkx, hx0, _, hS⟩ := hsuccs (α var.level) succs[α var.level]
        (List.getElem?_eq_getElem hidx)
      obtain ⟨hrm, _, hden⟩ := hU.ok _ _ hlk
      rw [F.den α _ (List.getElem?_eq_getElem hidx), ← hS α rfl, hkx]
      have hrm1 := F.ext.mem hrm
      have hd := hden α hαm
      rw [← denM_ext F.ext hW r' α hrm] at hd
      split
      · next hpos =>
        rw [hd]
        have : ((x'.natAbs : Nat) : Int) = x' := by omega
        rw [this]
      · next hnpos =>
        rw [denM_neg mdd1.tbl hW1 r' α hrm1, hd]
        have : x' = -((x'.natAbs : Nat) : Int) := by omega
        rw [this, hSneg _ _ (by omega)]
        simp
    · simp only [hxu, if_false] at hl
      obtain ⟨a, b, c⟩ := hU.ok x rx hl
      refine ⟨F.ext.mem a, by rw [F.ext.levelOf a]; exact b, ?_⟩
      intro α hα
      rw [denM_ext F.ext hW rx α a]
      exact c α ((F.ext.valid α).mpr hα)

/-- the MDD half of `bdd_to_mdd`: if every BDD-side step delivers `BddSideOK`, the final `umap`
maps every kept BDD node to an MDD reference with the intended meaning, and the MDD manager
satisfies its invariant -/
theorem b2mLoop_partial (S : Int → MAsg → Bool) (L : Nat → Nat)
    (hSneg : ∀ x α, x ≠ 0 → S (-x) α = !S x α)
    (rm : List Nat) (btv : List (String × MVar))
    (P : Mgr → Prop) (K : Nat → Prop)
    (hBdd : ∀ u umap mb var succs mb1, P mb → K u →
      b2mIntSucc btv u umap mb = (.ok (var, succs), mb1) → P mb1 ∧ BddSideOK S L u umap var succs) :
    ∀ (ord : List Nat) (mdd : MddMgr) (umap : List (Nat × Int)) (mb : Mgr) (out : B2MOut) (mb' : Mgr),
      (∀ u, u ∈ ord → rm.contains u = false → K u) → P mb →
      MInv mdd → UmapOK S L mdd umap →
      b2mLoop rm btv ord mdd umap mb = (.ok out, mb') →
      P mb' ∧ MInv out.mdd ∧ MExt mdd.tbl out.mdd.tbl ∧ UmapOK S L out.mdd out.umap ∧
      (∀ dv ext, MReach dv mdd ext → MReach dv out.mdd ext) := by
  intro ord
  induction ord with
  | nil =>
    intro mdd umap mb out mb' _ hP h hU hr
    simp only [b2mLoop, Prod.mk.injEq, Except.ok.injEq] at hr
    obtain ⟨ho, hmb⟩ := hr
    subst ho hmb
    exact ⟨hP, h, MExt.refl _, hU, fun _ _ hR => hR⟩
  | cons u rest ih =>
    intro mdd umap mb out mb' hK hP h hU hr
    have hKrest : ∀ u', u' ∈ rest → rm.contains u' = false → K u' :=
      fun u' hu' => hK u' (List.mem_cons_of_mem _ hu')
    unfold b2mLoop at hr
    split at hr
    · exact ih mdd umap mb out mb' hKrest hP h hU hr
    · next hrm =>
      split at hr
      · simp at hr
      · next var succs mb1 hside =>
        obtain ⟨hP1, hB⟩ := hBdd u umap mb var succs mb1 hP (hK u (by simp) (by simpa using hrm)) hside
        split at hr
        · simp at hr
        · next r mdd1 hfoa =>
          obtain ⟨hinv1, hext1, hU1, hR1⟩ := umap_step S L hSneg mdd umap h hU u var succs hB r mdd1 hfoa
          obtain ⟨i0, i1, i2, i3, i4⟩ := ih mdd1 _ mb1 out mb' hKrest hP1 hinv1 hU1 hr
          exact ⟨i0, i1, hext1.trans i2, i3, fun dv ext hR => i4 dv ext (hR1 dv ext hR)⟩

/-- keys of `umap` satisfy `Q` -/
def UmapKeys (Q : Nat → Prop) (umap : List (Nat × Int)) : Prop :=
  ∀ x r, umap.lookup x = some r → Q x

/-- how the intended semantics may move with the BDD manager during the loop (the node table
only grows): on the known nodes nothing changes -/
def SemMono (Q : Mgr → Nat → Prop) (S : Mgr → Int → MAsg → Bool) (L : Mgr → Nat → Nat)
    (mb mb1 : Mgr) : Prop :=
  ∀ x, Q mb x → Q mb1 x ∧ L mb1 x = L mb x ∧ ∀ α, S mb1 (x : Int) α = S mb (x : Int) α

/-- the loop, with an intended semantics that is read off the CURRENT BDD manager -/
theorem b2mLoop_sound_gen (Q : Mgr → Nat → Prop) (S : Mgr → Int → MAsg → Bool) (L : Mgr → Nat → Nat)
    (hSneg : ∀ mb x α, x ≠ 0 → S mb (-x) α = !S mb x α)
    (rm : List Nat) (btv : List (String × MVar))
    (P : Mgr → Prop) (K : Nat → Prop)
    (hBdd : ∀ u umap mb var succs mb1, P mb → K u →
      b2mIntSucc btv u umap mb = (.ok (var, succs), mb1) →
      P mb1 ∧ SemMono Q S L mb mb1 ∧ Q mb1 u ∧ BddSideOK (S mb1) (L mb1) u umap var succs) :
    ∀ (ord : List Nat) (mdd : MddMgr) (umap : List (Nat × Int)) (mb : Mgr) (out : B2MOut) (mb' : Mgr),
      (∀ u, u ∈ ord → rm.contains u = false → K u) → P mb →
      MInv mdd → UmapOK (S mb) (L mb) mdd umap → UmapKeys (Q mb) umap →
      b2mLoop rm btv ord mdd umap mb = (.ok out, mb') →
      P mb' ∧ MInv out.mdd ∧ MExt mdd.tbl out.mdd.tbl ∧ UmapOK (S mb') (L mb') out.mdd out.umap ∧
      UmapKeys (Q mb') out.umap ∧ (∀ dv ext, MReach dv mdd ext → MReach dv out.mdd ext) := by
  intro ord
  induction ord with
  | nil =>
    intro mdd umap mb out mb' _ hP h hU hQ hr
    simp only [b2mLoop, Prod.mk.injEq, Except.ok.injEq] at hr
    obtain ⟨ho, hmb⟩ := hr
    subst ho hmb
    exact ⟨hP, h, MExt.refl _, hU, hQ, fun _ _ hR => hR⟩
  | cons u rest ih =>
    intro mdd umap mb out mb' hK hP h hU hQ hr
    have hKrest : ∀ u', u' ∈ rest → rm.contains u' = false → K u' :=
      fun u' hu' => hK u' (List.mem_cons_of_mem _ hu')
    unfold b2mLoop at hr
    split at hr
    · exact ih mdd umap mb out mb' hKrest hP h hU hQ hr
    · next hrm =>
      split at hr
      · simp at hr
      · next var succs mb1 hside =>
        obtain ⟨hP1, hmono, hQu, hB⟩ :=
          hBdd u umap mb var succs mb1 hP (hK u (by simp) (by simpa using hrm)) hside
        -- the old entries, read in the new manager
        have hU' : UmapOK (S mb1) (L mb1) mdd umap := by
          constructor
          intro x r hl
          obtain ⟨a, b, c⟩ := hU.ok x r hl
          obtain ⟨_, hL, hS⟩ := hmono x (hQ x r hl)
          exact ⟨a, by rw [hL]; exact b, fun α hα => by rw [hS α]; exact c α hα⟩
        split at hr
        · simp at hr
        · next r mdd1 hfoa =>
          obtain ⟨hinv1, hext1, hU1, hR1⟩ :=
            umap_step (S mb1) (L mb1) (hSneg mb1) mdd umap h hU' u var succs hB r mdd1 hfoa
          have hQ1 : UmapKeys (Q mb1) ((u, r) :: umap.filter (fun p => p.1 ≠ u)) := by
            intro x rx hl
            rw [lookup_cons_filter] at hl
            by_cases hxu : x = u
            · subst hxu; exact hQu
            · simp only [hxu, if_false] at hl
              exact (hmono x (hQ x rx hl)).1
          obtain ⟨i0, i1, i2, i3, i4, i5⟩ := ih mdd1 _ mb1 out mb' hKrest hP1 hinv1 hU1 hQ1 hr
          exact ⟨i0, i1, hext1.trans i2, i3, i4, fun dv ext hR => i5 dv ext (hR1 dv ext hR)⟩

theorem assertConsistent_state (m : Mgr) (r : Except Err Unit) (m' : Mgr)
    (h : bddAssertConsistent m = (r, m')) : m' = m := by
  unfold bddAssertConsistent at h
  dsimp only at h
  split at h
  · cases h; rfl
  · split at h
    · cases h; rfl
    · split at h <;> (cases h; rfl)

/-- a successful `bdd_to_mdd` is: the preparation (collect, reorder, zones, selection of the
zone-entry nodes) followed by the main loop started on a fresh `MDD(dvars)` and `umap = {1: 1}` -/
theorem bddToMdd_unfold (dvars : List MVar) (lev : Option (List Nat)) (mb : Mgr) (out : B2MOut) (mb' : Mgr)
    (hr : bddToMdd dvars lev mb = (.ok out, mb')) :
    ∃ (p : B2MPrep) (mb1 : Mgr) (ord : List Nat),
      b2mPrepare dvars mb = (.ok p, mb1) ∧ bddLevelsOrder p.tbl lev = .ok ord ∧
      b2mLoop p.rm p.bitToVar ord (MddMgr.new (some dvars)) [(1, 1)] mb1 = (.ok out, mb') := by
  unfold bddToMdd at hr
  split at hr
  · cases hr
  · next p mb1 hp =>
    split at hr
    · cases hr
    · next mb2 hc =>
      have := assertConsistent_state mb1 _ mb2 hc
      subst this
      split at hr
      · cases hr
      · next ord ho => exact ⟨p, _, ord, hp, ho, hr⟩

end DD
