/-
  DDProofs.ToExprProofs — `to_expr` writes the text of a syntax tree that unfolds the
  diagram (the memo table only shares texts), and the front end of `add_expr`
  (tokenizer + parser) reads that text back as the same tree.
-/
import DDProofs.LexProofs
import DDProofs.SatSupport
open Std
namespace DD

/-! ### `to_expr`: the text is the text of a syntax tree of the diagram -/

/-- the term `to_expr` prints, as a syntax tree (no cache) -/
def toExprAstF : Nat → Tbl → Int → Except Err Ast
  | 0, _, _ => .error .fuel
  | f+1, t, u =>
    if u = 1 then .ok (.bool true) else
    if u = -1 then .ok (.bool false) else
    match t.succ[u.natAbs]? with
    | none => .error .key
    | some n =>
      if n.lo = 0 || n.hi = 0 then .error .assertion else
      match t.l2v[n.lvl]? with
      | none => .error .key
      | some var =>
        match toExprAstF f t n.lo with
        | .error e => .error e
        | .ok p =>
          match toExprAstF f t n.hi with
          | .error e => .error e
          | .ok q =>
            let e : Ast := if p = .bool false ∧ q = .bool true then .var var else .ite (.var var) q p
            .ok (if u < 0 then .not e else e)

theorem toExprAstF_mono (t : Tbl) : ∀ (f : Nat) (u : Int) (a : Ast),
    toExprAstF f t u = .ok a → toExprAstF (f+1) t u = .ok a := by
  intro f
  induction f with
  | zero => intro u a h; simp [toExprAstF] at h
  | succ f ih =>
    intro u a h
    rw [toExprAstF] at h ⊢
    by_cases h1 : u = 1
    · simpa [h1] using h
    · by_cases h2 : u = -1
      · simpa [h1, h2] using h
      · simp only [h1, h2, if_false] at h ⊢
        cases hn : t.succ[u.natAbs]? with
        | none => simp [hn] at h
        | some n =>
          simp only [hn] at h ⊢
          by_cases hz : (n.lo = 0 || n.hi = 0) = true
          · simp [hz] at h
          · simp only [hz] at h ⊢
            cases hv : t.l2v[n.lvl]? with
            | none => simp [hv] at h
            | some var =>
              simp only [hv] at h ⊢
              cases hp : toExprAstF f t n.lo with
              | error e => simp [hp] at h
              | ok p =>
                cases hq : toExprAstF f t n.hi with
                | error e => simp [hp, hq] at h
                | ok q =>
                  simp only [hp, hq] at h
                  rw [ih _ _ hp, ih _ _ hq]
                  exact h

theorem toExprAstF_mono' (t : Tbl) (f g : Nat) (u : Int) (a : Ast) (hfg : f ≤ g)
    (h : toExprAstF f t u = .ok a) : toExprAstF g t u = .ok a := by
  induction g with
  | zero =>
    have : f = 0 := by omega
    subst this; exact h
  | succ g ih =>
    by_cases hle : f ≤ g
    · exact toExprAstF_mono t g u a (ih hle)
    · have : f = g + 1 := by omega
      subst this; exact h


/-- the text `to_expr` writes for a tree of its image -/
def teStr (a : Ast) : String := String.ofList (teChars a)

theorem teStr_false {a : Ast} (h : TE a) : teStr a = "FALSE" ↔ a = .bool false := by
  have eF : "FALSE" = String.ofList "FALSE".toList := String.ofList_toList.symm
  unfold teStr
  rw [eF, String.ofList_inj]
  have e1 : "ite(".toList = ['i', 't', 'e', '('] := by decide
  have e2 : "(~ ".toList = ['(', '~', ' '] := by decide
  have e3 : "FALSE".toList = ['F', 'A', 'L', 'S', 'E'] := by decide
  cases h with
  | tt => simp only [teChars]; constructor <;> intro h' <;> exact absurd h' (by decide)
  | ff => simp [teChars]
  | var x hx =>
    simp only [teChars]
    constructor
    · intro h'
      have : x = "FALSE" := String.toList_injective h'
      subst this
      exact absurd hx.2 (by decide)
    · intro h'; exact absurd h' (by simp)
  | ite v q p _ _ _ => simp [teChars, e1, e3]
  | neg e _ => simp [teChars, e2, e3]

theorem teStr_true {a : Ast} (h : TE a) : teStr a = "TRUE" ↔ a = .bool true := by
  have eF : "TRUE" = String.ofList "TRUE".toList := String.ofList_toList.symm
  unfold teStr
  rw [eF, String.ofList_inj]
  have e1 : "ite(".toList = ['i', 't', 'e', '('] := by decide
  have e2 : "(~ ".toList = ['(', '~', ' '] := by decide
  have e3 : "TRUE".toList = ['T', 'R', 'U', 'E'] := by decide
  cases h with
  | tt => simp [teChars]
  | ff => simp only [teChars]; constructor <;> intro h' <;> exact absurd h' (by decide)
  | var x hx =>
    simp only [teChars]
    constructor
    · intro h'
      have : x = "TRUE" := String.toList_injective h'
      subst this
      exact absurd hx.2 (by decide)
    · intro h'; exact absurd h' (by simp)
  | ite v q p _ _ _ => simp [teChars, e1, e3]
  | neg e _ => simp [teChars, e2, e3]

theorem teStr_var (x : String) : teStr (.var x) = x := by
  simp [teStr, teChars, String.ofList_toList]

theorem teStr_ite (v : String) (q p : Ast) :
    teStr (.ite (.var v) q p) = "ite(" ++ v ++ ", " ++ teStr q ++ ", " ++ teStr p ++ ")" := by
  apply String.toList_injective
  have e : ")".toList = [')'] := by decide
  simp [teStr, teChars, String.toList_append, String.toList_ofList, e]

theorem teStr_not (a : Ast) : teStr (.not a) = "(~ " ++ teStr a ++ ")" := by
  apply String.toList_injective
  have e : ")".toList = [')'] := by decide
  simp [teStr, teChars, String.toList_append, String.toList_ofList, e]

/-- every cached text is the text of the tree of its node -/
def CacheOK (t : Tbl) (cache : HashMap Int String) : Prop :=
  ∀ k s, cache[k]? = some s → ∃ f a, toExprAstF f t k = .ok a ∧ TE a ∧ s = teStr a

/-- the variables that label the nodes of the diagram below `u` (the levels of the support of
`u`, `namesBelow_of_support`) are NAME tokens and not reserved words -/
def NamesBelow (t : Tbl) (u : Int) : Prop :=
  ∀ v n, Reach t u.natAbs v → t.succ[v]? = some n → ∀ x, t.l2v[n.lvl]? = some x → nameOk x

theorem NamesBelow.lo {t : Tbl} {u : Int} {n : Nd} (h : NamesBelow t u)
    (hn : t.succ[u.natAbs]? = some n) : NamesBelow t n.lo :=
  fun v n' hr => h v n' (Reach.lo hn hr)

theorem NamesBelow.hi {t : Tbl} {u : Int} {n : Nd} (h : NamesBelow t u)
    (hn : t.succ[u.natAbs]? = some n) : NamesBelow t n.hi :=
  fun v n' hr => h v n' (Reach.hi hn hr)

/-- all names lexable: in particular those below any `u` -/
theorem NamesBelow.of_all {t : Tbl} (h : ∀ (lvl : Nat) (v : String), t.l2v[lvl]? = some v → nameOk v)
    (u : Int) : NamesBelow t u :=
  fun _ n _ _ x hx => h n.lvl x hx

theorem toExprF_spec (t : Tbl) :
    ∀ (f : Nat) (u : Int) (cache cache' : HashMap Int String) (s : String), NamesBelow t u →
    CacheOK t cache → toExprF f t u cache = .ok (s, cache') →
    CacheOK t cache' ∧ ∃ f' a, toExprAstF f' t u = .ok a ∧ TE a ∧ s = teStr a := by
  intro f
  induction f with
  | zero => intro u cache cache' s _ _ h; simp [toExprF] at h
  | succ f ih =>
    intro u cache cache' s hnames hc h
    rw [toExprF] at h
    by_cases h1 : u = 1
    · simp only [h1, if_true, Except.ok.injEq, Prod.mk.injEq] at h
      obtain ⟨rfl, rfl⟩ := h
      exact ⟨hc, 1, .bool true, by simp [toExprAstF, h1], TE.tt, by decide⟩
    · by_cases h2 : u = -1
      · simp only [h2, if_true] at h
        obtain ⟨rfl, rfl⟩ := h
        exact ⟨hc, 1, .bool false, by simp [toExprAstF, h2], TE.ff, by decide⟩
      · simp only [h1, h2, if_false] at h
        cases hcu : cache[u]? with
        | some s0 =>
          simp only [hcu, Except.ok.injEq, Prod.mk.injEq] at h
          obtain ⟨rfl, rfl⟩ := h
          exact ⟨hc, hc u _ hcu⟩
        | none =>
          simp only [hcu] at h
          cases hn : t.succ[u.natAbs]? with
          | none => simp [hn] at h
          | some n =>
            simp only [hn] at h
            by_cases hz : (n.lo = 0 || n.hi = 0) = true
            · simp [hz] at h
            · simp only [hz, Bool.false_eq_true, if_false] at h
              cases hv : t.l2v[n.lvl]? with
              | none => simp [hv] at h
              | some var =>
                simp only [hv] at h
                cases hp : toExprF f t n.lo cache with
                | error e => simp [hp] at h
                | ok pr =>
                  obtain ⟨ps, c1⟩ := pr
                  simp only [hp] at h
                  cases hq : toExprF f t n.hi c1 with
                  | error e => simp [hq] at h
                  | ok qr =>
                    obtain ⟨qs, c2⟩ := qr
                    simp only [hq, Except.ok.injEq, Prod.mk.injEq] at h
                    obtain ⟨hs, hcache⟩ : _ = s ∧ _ = cache' := h
                    obtain ⟨hc1, fp, ap, hap, htp, rfl⟩ := ih _ _ _ _ (hnames.lo hn) hc hp
                    obtain ⟨hc2, fq, aq, haq, htq, rfl⟩ := ih _ _ _ _ (hnames.hi hn) hc1 hq
                    have hvar : nameOk var := hnames _ n (Reach.refl _) hn _ hv
                    -- the tree of u
                    let e : Ast := if ap = .bool false ∧ aq = .bool true then .var var else .ite (.var var) aq ap
                    let a : Ast := if u < 0 then .not e else e
                    have hte : TE e := by
                      simp only [e]
                      split
                      · exact TE.var _ hvar
                      · exact TE.ite _ _ _ hvar htq htp
                    have hta : TE a := by
                      simp only [a]
                      split
                      · exact TE.neg _ hte
                      · exact hte
                    have hast : toExprAstF (max fp fq + 1) t u = .ok a := by
                      rw [toExprAstF]
                      simp only [h1, h2, if_false, hn, hz, hv,
                        toExprAstF_mono' t fp (max fp fq) _ _ (Nat.le_max_left _ _) hap,
                        toExprAstF_mono' t fq (max fp fq) _ _ (Nat.le_max_right _ _) haq]
                      rfl
                    have hes : (if (teStr ap == "FALSE" && teStr aq == "TRUE") = true then var
                        else s!"ite({var}, {teStr aq}, {teStr ap})") = teStr e := by
                      simp only [e]
                      by_cases hcond : ap = .bool false ∧ aq = .bool true
                      · have t1 : teStr ap = "FALSE" := (teStr_false htp).mpr hcond.1
                        have t2 : teStr aq = "TRUE" := (teStr_true htq).mpr hcond.2
                        rw [t1, t2, if_pos hcond, teStr_var]
                        rfl
                      · have : (teStr ap == "FALSE" && teStr aq == "TRUE") = false := by
                          rw [Bool.and_eq_false_iff]
                          by_cases ca : ap = .bool false
                          · right
                            have : ¬ aq = .bool true := fun h' => hcond ⟨ca, h'⟩
                            simpa [teStr_true htq] using this
                          · left
                            simpa [teStr_false htp] using ca
                        simp only [this, Bool.false_eq_true, if_false, hcond, teStr_ite]
                        rfl
                    have hs' : s = teStr a := by
                      rw [← hs, hes]
                      simp only [a]
                      split
                      · rw [teStr_not]; rfl
                      · rfl
                    refine ⟨?_, _, a, hast, hta, hs'⟩
                    intro k s1 hk
                    rw [← hcache, HashMap.getElem?_insert] at hk
                    by_cases hku : (u == k) = true
                    · simp only [hku, if_true, Option.some.injEq] at hk
                      have : u = k := by simpa using hku
                      subst this
                      refine ⟨_, a, hast, hta, ?_⟩
                      rw [← hk, ← hs']
                      exact hs
                    · simp only [hku, Bool.false_eq_true, if_false] at hk
                      exact hc2 k s1 hk


theorem TE_wf {a : Ast} (h : TE a) : a.WF := by
  induction h with
  | tt => trivial
  | ff => trivial
  | var x _ => trivial
  | ite v q p _ _ _ ihq ihp => exact ⟨trivial, ihq, ihp⟩
  | neg e _ ih => exact ih

/-- lexing the text `to_expr` writes for a tree gives the tokens of the tree, with
parentheses exactly around the negations -/
theorem tokenize_teStr {a : Ast} (h : TE a) : tokenize (teStr a) = printG isNot a := by
  unfold tokenize teStr
  rw [String.toList_ofList, ← String.length_toList, String.toList_ofList]
  have := tokenizeF_te a h ((teChars a).length + 1) [] [] (by simp) trivial
    (fun f' hf' => by obtain ⟨g, rfl⟩ := fuel_succ hf'; exact tokenizeF_nil g)
  simpa using this

/-- the text written by `to_expr` is the text of the syntax tree that unfolds the diagram
below `u` (`ite(var, high, low)`, a variable for `ite(var, TRUE, FALSE)`, `(~ …)` for a
complemented reference), provided the names of the variables BELOW `u` are NAME tokens -/
theorem toExpr_spec (t : Tbl) (u : Int) (hnames : NamesBelow t u)
    (s : String) (h : toExpr t u = .ok s) :
    ∃ f a, toExprAstF f t u = .ok a ∧ TE a ∧ s = teStr a := by
  unfold toExpr at h
  split at h
  · exact absurd h (by simp)
  · cases hr : toExprF (t.nvars + 2) t u {} with
    | error e => simp [hr, Except.map] at h
    | ok r =>
      obtain ⟨s', c⟩ := r
      simp only [hr, Except.map, Except.ok.injEq] at h
      subst h
      have hc0 : CacheOK t ({} : HashMap Int String) := by
        intro k s1 hk
        simp at hk
      exact (toExprF_spec t _ _ _ _ _ hnames hc0 hr).2

/-- the hypothesis of the round trip stated with `support`: the names of the levels of the
support of `u` are NAME tokens (other declared variables may have any name) -/
def lexableSupport (tb : Tbl) (u : Int) : Prop :=
  ∀ ls, supportLevels tb u = .ok ls → ∀ lvl ∈ ls, ∀ v, tb.l2v[lvl]? = some v → nameOk v

/-- the levels of the nodes below `u` are the levels of `support(u)` -/
theorem namesBelow_of_support {t : Tbl} (hw : WFU t) {u : Int} (hm : t.Mem u)
    (h : lexableSupport t u) : NamesBelow t u := by
  obtain ⟨l, e, _, s⟩ := supportLevels_spec' hw u hm
  intro v n hr hn x hx
  exact h l e n.lvl ((s _).mpr ((dependsOn_iff_reach hw _ u hm).mpr ⟨v, n, hr, hn, rfl⟩)) x hx

/-- `to_expr`, then the front end of `add_expr`: the tree of the diagram comes back -/
theorem parse_toExpr (t : Tbl) (u : Int) (hnames : NamesBelow t u)
    (s : String) (h : toExpr t u = .ok s) :
    ∃ f a, toExprAstF f t u = .ok a ∧ TE a ∧ parse (tokenize s) = some a := by
  obtain ⟨f, a, ha, hte, rfl⟩ := toExpr_spec t u hnames s h
  exact ⟨f, a, ha, hte, by rw [tokenize_teStr hte, parse_printG isNot a (TE_wf hte)]⟩

end DD
