/-
  DDProofs.Witness — a concrete manager with one declared variable and the node of that
  variable: used by the non-vacuity examples of the property files C03 / C04 / C11.
-/
import DDProofs.QuantCor
open Std

namespace DD

/-- a manager with the single variable `x` at level 0 and no nodes yet -/
def wit0 : Mgr :=
  { tbl := { vars := ({} : TreeMap String Nat).insert "x" 0,
             l2v := ({} : TreeMap Nat String).insert 0 "x" } }

theorem wit0_nvars : wit0.tbl.nvars = 1 := by
  simp [wit0, Tbl.nvars, TreeMap.size_insert]

theorem wit0_inv : Inv wit0 := by
  refine ⟨⟨⟨?_, ?_, ?_, ?_, ?_, ?_, ?_, ?_⟩, ?_⟩, ?_, ?_, ?_, ?_, ?_, ?_⟩ <;>
    simp [wit0, Tbl.node?] <;> try decide

theorem wit0_varsBij : VarsBij wit0.tbl := by
  refine ⟨?_, ?_, ?_, ?_⟩
  · intro v i h
    simp only [wit0, TreeMap.getElem?_insert] at h ⊢
    split at h
    · next hc =>
      have hv : "x" = v := by simpa using hc
      cases h
      simp [hv]
    · simp at h
  · intro i v h
    simp only [wit0, TreeMap.getElem?_insert] at h ⊢
    split at h
    · next hc =>
      have hi : 0 = i := by simpa using hc
      cases h
      simp [hi]
    · simp at h
  · intro v i h
    rw [wit0_nvars]
    simp only [wit0, TreeMap.getElem?_insert] at h
    split at h
    · cases h; exact Nat.one_pos
    · simp at h
  · intro i hi
    rw [wit0_nvars] at hi
    have : i = 0 := by omega
    subst this
    exact ⟨"x", by simp [wit0]⟩

theorem VarsBij.frame {m m' : Mgr} (hf : Frame m m') (h : VarsBij m.tbl) : VarsBij m'.tbl := by
  have hv := hf.vars
  have hl := hf.l2v
  have hn : m'.tbl.nvars = m.tbl.nvars := by simp [Tbl.nvars, hv]
  refine ⟨?_, ?_, ?_, ?_⟩
  · intro v i hh; rw [hv] at hh; rw [hl]; exact h.v2l v i hh
  · intro i v hh; rw [hl] at hh; rw [hv]; exact h.l2v i v hh
  · intro v i hh; rw [hv] at hh; rw [hn]; exact h.lt v i hh
  · intro i hi; rw [hn] at hi; rw [hv]; exact h.onto i hi

/-- there is a manager satisfying every hypothesis of the C03 / C04 / C11 theorems that holds
a non-constant function: the variable `x` -/
theorem witness :
    ∃ (m : Mgr) (u : Int), Inv m ∧ m.lastLen = none ∧ VarsBij m.tbl ∧ m.tbl.Mem u ∧
      m.tbl.vars["x"]? = some 0 ∧ m.tbl.nvars = 1 ∧ (∀ a, den m.tbl u a = a 0) ∧
      InSupp m.tbl u 0 := by
  obtain ⟨g, m', _, hs, hg, hl, hd⟩ := varNode_off wit0 wit0_inv rfl 0
    (by show 0 < wit0.tbl.nvars; rw [wit0_nvars]; exact Nat.one_pos)
  have hn : m'.tbl.nvars = 1 := by rw [← hs.ext.nvars]; exact wit0_nvars
  have hg1 : g.natAbs ≠ 1 := by
    intro h1
    rcases abs_one h1 with h | h <;> subst h
    · have := hd (fun _ => false); rw [den_one] at this; cases this
    · have := hd (fun _ => true); rw [den_neg_one] at this; cases this
  obtain ⟨n, hn'⟩ := mem_node hg hg1
  have hlv : n.lvl = 0 := by
    have h1 := levelOf_node m'.tbl g n hg1 hn'
    have h2 := hs.inv.wf.toWF.lvl_lt _ _ hn'
    omega
  refine ⟨m', g, hs.inv, hs.off rfl, wit0_varsBij.frame hs.frame, hg, ?_, hn, hd, ?_⟩
  · rw [hs.frame.vars]; simp [wit0]
  · have := InSupp.here (t := m'.tbl) hg1 hn'
    rwa [hlv] at this

end DD
