/-
  DDProofs.DddmpProofs — specification and proof of the model of `dd.dddmp.load`
  (`DD/Dddmp.lean`): semantics of a file (`evalFile`), well-formed files
  (`DddmpFile.WF`), and the rebuild loop.
-/
import DD.Dddmp
import DDProofs.Inv
import DDProofs.FindOrAdd
import DDProofs.RefCount
import DDProofs.VarsProofs
import DDProofs.DddmpLists
open Std

namespace DD

/-! ### the specification of `find_or_add` the proofs rest on

(the full proof of this statement lives in `DDProofs/FindOrAdd.lean`; here it is a
hypothesis, and every theorem that uses it is named `…_of_foaSpec`) -/

structure FoaSpec : Prop where
  spec : ∀ (m : Mgr) (i : Nat) (v w : Int), Inv m → i < m.nvars → m.tbl.Mem v → m.tbl.Mem w →
    i < m.tbl.levelOf v → i < m.tbl.levelOf w →
    ∃ r m', findOrAddCore i v w m = (.ok r, m') ∧ Inv m' ∧ Ext m.tbl m'.tbl ∧ m'.tbl.Mem r ∧
      i ≤ m'.tbl.levelOf r ∧
      (∀ a, den m'.tbl r a = if a i then den m.tbl w a else den m.tbl v a)
  /-- the fields `find_or_add` leaves alone (`FoaPost.frame`, `.fire`, `.cacheSame`) -/
  side : ∀ (m : Mgr) (i : Nat) (v w : Int), Inv m → i < m.nvars → m.tbl.Mem v → m.tbl.Mem w →
    i < m.tbl.levelOf v → i < m.tbl.levelOf w →
    Frame m (findOrAddCore i v w m).2 ∧ (findOrAddCore i v w m).2.fireIn = m.fireIn ∧
      (findOrAddCore i v w m).2.cache = m.cache

/-- `OrderOK` reads the two name maps only -/
theorem OrderOK.dddmp_of_maps_eq {t t' : Tbl} (h : OrderOK t) (hv : t'.vars = t.vars) (hl : t'.l2v = t.l2v) :
    OrderOK t' := by
  have hn : t'.nvars = t.nvars := by simp only [Tbl.nvars, hv]
  exact ⟨by rw [hv, hl]; exact h.inv, by rw [hv, hn]; exact h.lt, by rw [hn, hl]; exact h.total⟩

/-! ### what `find_or_add` leaves alone -/

theorem dddmp_incref_frame {u : Int} {m m' : Mgr} {r : Except Err Unit} (h : incref u m = (r, m')) :
    m'.tbl = m.tbl ∧ m'.ctx = m.ctx := by
  unfold incref at h
  split at h <;> (cases h; exact ⟨rfl, rfl⟩)

theorem dddmp_findOrAddCore_frame (i : Nat) (v w : Int) (m : Mgr) :
    (findOrAddCore i v w m).2.tbl.vars = m.tbl.vars ∧
    (findOrAddCore i v w m).2.tbl.l2v = m.tbl.l2v ∧
    (findOrAddCore i v w m).2.ctx = m.ctx := by
  unfold findOrAddCore
  dsimp only
  repeat' split
  all_goals first
    | exact ⟨rfl, rfl, rfl⟩
    | (rename_i ha _ _ _ hb
       have a := dddmp_incref_frame ha
       have b := dddmp_incref_frame hb
       simp [a.1, a.2, b.1, b.2]
       done)
    | (rename_i ha
       have a := dddmp_incref_frame ha
       simp [a.1, a.2]
       done)

theorem dddmp_findOrAdd_eq_core (i : Nat) (v w : Int) (m : Mgr) (hc : m.ctx = false) :
    findOrAdd (i : Int) v w m = findOrAddCore i v w m := by
  have hi : ¬ ((i : Int) < 0) := by omega
  simp [findOrAdd, hc, hi]

/-! ### assignments of names as assignments of levels -/

/-- assignment of levels induced by an assignment of names, in a manager -/
def asgOfMap (l2v : TreeMap Nat String) (α : String → Bool) : Asg := fun i =>
  match l2v[i]? with
  | some v => α v
  | none => false

def dddmpAsgOf (t : Tbl) (α : String → Bool) : Asg := asgOfMap t.l2v α

/-! ### well-formed files -/

/-- the node `c` (a "then" or "else" column) is listed and lies strictly below level `k` -/
def DddmpChildOK (f : DddmpFile) (i2p : List (DddmpTok × Int)) (k : Int) (c : Int) : Prop :=
  ∃ n' ∈ f.nodes, n'.u = (c.natAbs : Int) ∧ ∃ k', dictGet i2p n'.info = some k' ∧ k < k'

/-- a terminal line `1 T _ 0 0` -/
def DddmpNode.IsTerm (n : DddmpNode) : Prop :=
  n.u = 1 ∧ n.info = .str "T" ∧ n.thn = 0 ∧ n.els = 0

/-- a non-terminal line: number > 1, label resolves to the level of a variable, regular
then-edge, both children listed at deeper levels -/
def DddmpNode.IsNode (f : DddmpFile) (i2p levels : List (DddmpTok × Int)) (n : DddmpNode) : Prop :=
  1 < n.u ∧ n.info ≠ .str "T" ∧ 0 < n.thn ∧ n.els ≠ 0 ∧
    ∃ k, dictGet i2p n.info = some k ∧ k ∈ levels.map (·.2) ∧
      DddmpChildOK f i2p k n.thn ∧ DddmpChildOK f i2p k n.els

structure DddmpBodyWF (f : DddmpFile) (i2p levels : List (DddmpTok × Int)) (nv : Int) : Prop where
  /-- `.nvars` is a count -/
  nvNonneg : 0 ≤ nv
  /-- `.nnodes` is the number of node lines -/
  nnodes : f.nnodes = some (f.nodes.length : Int)
  /-- node numbers are distinct -/
  idsNodup : (f.nodes.map (·.u)).Nodup
  /-- variable names are distinct (as they reach `BDD.vars`) -/
  namesNodup : (levels.map (·.1.show)).Nodup
  /-- no two variables on the same level -/
  levelsNodup : (levels.map (·.2)).Nodup
  /-- levels (permids) are in `0 .. nvars` -/
  levelRange : ∀ p ∈ levels, 0 ≤ p.2 ∧ p.2 ≤ nv
  /-- every line is a terminal line or a non-terminal line whose children come deeper -/
  line : ∀ n ∈ f.nodes, n.IsTerm ∨ n.IsNode f i2p levels

/-- a well-formed file: the header is accepted, and the node list is consistent with it;
the numbering of the nodes is arbitrary -/
def DddmpFile.WF (f : DddmpFile) : Prop :=
  ∃ i2p levels roots nv, dddmpHeader f = .ok (i2p, levels, roots) ∧ f.nvars = some nv ∧
    DddmpBodyWF f i2p levels nv ∧
    -- every root entry is the (signed) number of a listed node
    ∀ ρ ∈ roots, ∃ x ∈ f.nodes, x.u = (ρ.natAbs : Int)

/-! ### unfolding `evalFile` on well-formed files -/

theorem find?_node_of_mem {l : List DddmpNode} (h : (l.map (·.u)).Nodup) {n : DddmpNode}
    (hn : n ∈ l) : l.find? (fun n' => decide (n'.u = n.u)) = some n := by
  induction l with
  | nil => cases hn
  | cons a r ih =>
    simp only [List.map_cons, List.nodup_cons] at h
    rcases List.mem_cons.mp hn with rfl | hr
    · simp
    · have : a.u ≠ n.u := by
        intro e
        exact h.1 (e ▸ List.mem_map.mpr ⟨n, hr, rfl⟩)
      simp [this, ih h.2 hr]

theorem find?_level_of_mem {l : List (DddmpTok × Int)} (h : (l.map (·.2)).Nodup) {var : DddmpTok} {k : Int}
    (hm : (var, k) ∈ l) : l.find? (fun p => decide (p.2 = k)) = some (var, k) := by
  induction l with
  | nil => cases hm
  | cons a r ih =>
    simp only [List.map_cons, List.nodup_cons] at h
    rcases List.mem_cons.mp hm with rfl | hr
    · simp
    · have : a.2 ≠ k := by
        intro e
        exact h.1 (e ▸ List.mem_map.mpr ⟨(var, k), hr, rfl⟩)
      simp [this, ih h.2 hr]

theorem dddmpVarOf_of_mem {i2p levels : List (DddmpTok × Int)} (h : (levels.map (·.2)).Nodup)
    {info var : DddmpTok} {k : Int} (hk : dictGet i2p info = some k) (hm : (var, k) ∈ levels) :
    dddmpVarOf i2p levels info = some var := by
  simp [dddmpVarOf, hk, find?_level_of_mem h hm]

theorem evalFileF_abs (i2p levels : List (DddmpTok × Int)) (nodes : List DddmpNode) (α : String → Bool)
    (fuel : Nat) (x : Int) :
    evalFileF i2p levels nodes α fuel x =
      ((decide (x < 0)) ^^ evalFileF i2p levels nodes α fuel (x.natAbs : Int)) := by
  cases fuel with
  | zero =>
    have h0 : ¬ ((x.natAbs : Int) < 0) := by omega
    simp [evalFileF, h0]
  | succ fuel =>
    have h0 : ¬ ((x.natAbs : Int) < 0) := by omega
    rw [evalFileF, evalFileF]
    simp [h0]

section WFFile
variable {f : DddmpFile} {i2p levels : List (DddmpTok × Int)} {nv : Int}

/-- every listed line has a level in `0 .. nvars+1`; `nvars+1` is the terminal's -/
theorem DddmpBodyWF.lineLevel (hw : DddmpBodyWF f i2p levels nv)
    (hT : dictGet i2p (.str "T") = some (nv + 1)) {n : DddmpNode} (hn : n ∈ f.nodes) :
    ∃ k, dictGet i2p n.info = some k ∧ 0 ≤ k ∧ k ≤ nv + 1 ∧ (n.info = .str "T" → k = nv + 1) := by
  have h0 := hw.nvNonneg
  rcases hw.line n hn with ht | hnode
  · exact ⟨nv + 1, by rw [ht.2.1]; exact hT, by omega, Int.le_refl _, fun _ => rfl⟩
  · obtain ⟨_, hne, _, _, k, hk, hkl, _, _⟩ := hnode
    obtain ⟨p, hp, rfl⟩ := List.mem_map.mp hkl
    have := hw.levelRange p hp
    exact ⟨p.2, hk, this.1, by omega, fun e => absurd e hne⟩

/-- enough fuel gives the same value -/
theorem DddmpBodyWF.evalFileF_stable (hw : DddmpBodyWF f i2p levels nv)
    (hT : dictGet i2p (.str "T") = some (nv + 1)) (α : String → Bool) :
    ∀ (fuel : Nat) (x : Int) (n : DddmpNode) (k : Int), n ∈ f.nodes → n.u = (x.natAbs : Int) →
      dictGet i2p n.info = some k → (nv + 1 - k).toNat + 1 ≤ fuel →
      evalFileF i2p levels f.nodes α fuel x = evalFileF i2p levels f.nodes α (fuel + 1) x := by
  intro fuel
  induction fuel with
  | zero => intro x n k _ _ _ h; omega
  | succ fuel ih =>
    intro x n k hn hu hk hf
    rw [evalFileF, evalFileF]
    have hfind : f.nodes.find? (fun n' => decide (n'.u = (x.natAbs : Int))) = some n := by
      rw [← hu]; exact find?_node_of_mem hw.idsNodup hn
    simp only [hfind]
    by_cases hti : n.info = .str "T"
    · simp [hti]
    · simp only [hti, if_false]
      rcases hw.line n hn with ht | hnode
      · exact absurd ht.2.1 hti
      · obtain ⟨_, _, _, _, k₁, hk₁, hkl, hc1, hc2⟩ := hnode
        rw [hk] at hk₁
        cases hk₁
        obtain ⟨p, hp, hpk⟩ := List.mem_map.mp hkl
        have hvar : dddmpVarOf i2p levels n.info = some p.1 :=
          dddmpVarOf_of_mem hw.levelsNodup hk (by rw [← hpk]; exact hp)
        simp only [hvar]
        have child : ∀ c, DddmpChildOK f i2p k c →
            evalFileF i2p levels f.nodes α fuel c = evalFileF i2p levels f.nodes α (fuel + 1) c := by
          intro c hc
          obtain ⟨n', hn', hu', k', hk', hlt⟩ := hc
          obtain ⟨k₂, hk₂, _, hle, _⟩ := hw.lineLevel hT hn'
          rw [hk'] at hk₂
          cases hk₂
          exact ih c n' k' hn' hu' hk' (by omega)
        rw [child _ hc1, child _ hc2]

/-- Shannon expansion of a non-terminal line at the fuel `evalFile` uses -/
theorem DddmpBodyWF.evalFileF_node (hw : DddmpBodyWF f i2p levels nv)
    (hT : dictGet i2p (.str "T") = some (nv + 1)) (α : String → Bool)
    {n : DddmpNode} (hn : n ∈ f.nodes) (hnode : n.IsNode f i2p levels)
    {var : DddmpTok} {k : Int} (hk : dictGet i2p n.info = some k) (hv : (var, k) ∈ levels) :
    evalFileF i2p levels f.nodes α (nv + 2).toNat n.u =
      if α var.show then evalFileF i2p levels f.nodes α (nv + 2).toNat n.thn
      else evalFileF i2p levels f.nodes α (nv + 2).toNat n.els := by
  have h0 := hw.nvNonneg
  have hF : (nv + 2).toNat = (nv + 1).toNat + 1 := by omega
  obtain ⟨hu1, hti, _, _, k₁, hk₁, _, hc1, hc2⟩ := hnode
  rw [hk] at hk₁
  cases hk₁
  have hkr := hw.levelRange _ hv
  rw [hF, evalFileF]
  have hneg : ¬ (n.u < 0) := by omega
  have habs : (n.u.natAbs : Int) = n.u := by omega
  have hfind : f.nodes.find? (fun n' => decide (n'.u = (n.u.natAbs : Int))) = some n := by
    rw [habs]; exact find?_node_of_mem hw.idsNodup hn
  have hvar : dddmpVarOf i2p levels n.info = some var := dddmpVarOf_of_mem hw.levelsNodup hk hv
  simp only [hfind, hti, if_false, hvar, hneg, decide_false, Bool.false_xor]
  have child : ∀ c, DddmpChildOK f i2p k c →
      evalFileF i2p levels f.nodes α (nv + 1).toNat c =
        evalFileF i2p levels f.nodes α ((nv + 1).toNat + 1) c := by
    intro c hc
    obtain ⟨n', hn', hu', k', hk', hlt⟩ := hc
    obtain ⟨k₂, hk₂, _, hle, _⟩ := hw.lineLevel hT hn'
    rw [hk'] at hk₂
    cases hk₂
    simp only at hkr
    exact hw.evalFileF_stable hT α _ c n' k' hn' hu' hk' (by omega)
  rw [child _ hc1, child _ hc2]

/-- a terminal line is the constant true -/
theorem DddmpBodyWF.evalFileF_term (hw : DddmpBodyWF f i2p levels nv) (α : String → Bool)
    {n : DddmpNode} (hn : n ∈ f.nodes) (ht : n.IsTerm) :
    evalFileF i2p levels f.nodes α (nv + 2).toNat 1 = true := by
  have h0 := hw.nvNonneg
  have hF : (nv + 2).toNat = (nv + 1).toNat + 1 := by omega
  rw [hF, evalFileF]
  have hfind : f.nodes.find? (fun n' => decide (n'.u = 1)) = some n := by
    rw [← ht.1]; exact find?_node_of_mem hw.idsNodup hn
  simp [hfind, ht.2.1]

end WFFile

/-! ### the rebuild loop -/

/-- the entry `_parse_body` stores for a node line -/
def dddmpEntryOf (i2p : List (DddmpTok × Int)) (n : DddmpNode) : Int × DddmpEntry :=
  (n.u, ⟨(dictGet i2p n.info).getD 0,
         if n.els = 0 then none else some n.els,
         if n.thn = 0 then none else some n.thn⟩)

/-- the level of the new manager at which the line `y` is rebuilt -/
def DddmpLvl (i2p : List (DddmpTok × Int)) (o2n : List (Int × Int)) (y : DddmpNode) (i : Nat) : Prop :=
  ∃ k, dictGet i2p y.info = some k ∧ dictGet o2n k = some (i : Int)

theorem DddmpLvl.det {i2p : List (DddmpTok × Int)} {o2n : List (Int × Int)} {y : DddmpNode} {i i' : Nat}
    (h : DddmpLvl i2p o2n y i) (h' : DddmpLvl i2p o2n y i') : i = i' := by
  obtain ⟨k, hk, hi⟩ := h
  obtain ⟨k', hk', hi'⟩ := h'
  rw [hk] at hk'
  cases hk'
  rw [hi] at hi'
  have := Option.some.inj hi'
  omega

/-- everything the loop needs to know about the tables computed before it -/
structure DddmpRCtx (f : DddmpFile) (i2p levels : List (DddmpTok × Int)) (nv : Int)
    (o2n : List (Int × Int)) (n : Nat) (l2v0 : TreeMap Nat String) : Prop where
  wf : DddmpBodyWF f i2p levels nv
  hT : dictGet i2p (.str "T") = some (nv + 1)
  rank : ∀ var k, (var, k) ∈ levels →
    ∃ i : Nat, dictGet o2n k = some (i : Int) ∧ i < n ∧ l2v0[i]? = some var.show
  mono : ∀ (k k' : Int) (i i' : Nat), k ∈ levels.map (·.2) → k' ∈ levels.map (·.2) → k < k' →
    dictGet o2n k = some (i : Int) → dictGet o2n k' = some (i' : Int) → i < i'

/-- the file node `y` has been rebuilt correctly: `umap` sends its number to a reference
of the manager, not above its level, denoting (by variable name) what the file says -/
def DddmpGood (f : DddmpFile) (i2p levels : List (DddmpTok × Int)) (nv : Int) (o2n : List (Int × Int))
    (l2v0 : TreeMap Nat String) (m : Mgr) (umap : List (Int × Int)) (y : DddmpNode) : Prop :=
  ∃ r, dictGet umap y.u = some r ∧ m.tbl.Mem r ∧
    (∀ i, DddmpLvl i2p o2n y i → i ≤ m.tbl.levelOf r) ∧
    ∀ α, den m.tbl r (asgOfMap l2v0 α) = evalFileF i2p levels f.nodes α (nv + 2).toNat y.u

/-- loop invariant: the nodes in `D` have been rebuilt -/
structure DddmpSt (f : DddmpFile) (i2p levels : List (DddmpTok × Int)) (nv : Int) (o2n : List (Int × Int))
    (n : Nat) (l2v0 : TreeMap Nat String) (m : Mgr) (umap : List (Int × Int))
    (D : DddmpNode → Prop) : Prop where
  inv : Inv m
  ctx : m.ctx = false
  l2v : m.tbl.l2v = l2v0
  nvars : m.nvars = n
  term : dictGet umap 1 = some 1
  good : ∀ y ∈ f.nodes, y.IsNode f i2p levels → D y → DddmpGood f i2p levels nv o2n l2v0 m umap y
  /-- the rest of the reachable-state invariant: order maps, exact counts (nobody holds a
  reference: `find_or_add` counts stored edges only), reordering not enabled, nothing else set -/
  order : OrderOK m.tbl
  exact : RefExact m (fun _ => 0)
  off : m.lastLen = none
  sched : m.sched = []
  noRoots : m.roots = []
  fire : m.fireIn = none
  cache : m.cache = {}

section Rebuild
variable {f : DddmpFile} {i2p levels : List (DddmpTok × Int)} {nv : Int} {o2n : List (Int × Int)}
  {n : Nat} {l2v0 : TreeMap Nat String}

theorem DddmpBodyWF.eq_of_u_eq (hw : DddmpBodyWF f i2p levels nv) {x y : DddmpNode}
    (hx : x ∈ f.nodes) (hy : y ∈ f.nodes) (h : x.u = y.u) : x = y := by
  have h1 := find?_node_of_mem hw.idsNodup hx
  have h2 := find?_node_of_mem hw.idsNodup hy
  rw [h] at h1
  rw [h1] at h2
  exact Option.some.inj h2

/-- a non-terminal line has a level in the new manager -/
theorem DddmpRCtx.lvl_of_node (C : DddmpRCtx f i2p levels nv o2n n l2v0) {x : DddmpNode}
    (hnode : x.IsNode f i2p levels) :
    ∃ (k : Int) (var : DddmpTok) (i : Nat), dictGet i2p x.info = some k ∧ (var, k) ∈ levels ∧
      dictGet o2n k = some (i : Int) ∧ i < n ∧ l2v0[i]? = some var.show ∧
      DddmpChildOK f i2p k x.thn ∧ DddmpChildOK f i2p k x.els := by
  obtain ⟨_, _, _, _, k, hk, hkl, hc1, hc2⟩ := hnode
  obtain ⟨p, hp, hpk⟩ := List.mem_map.mp hkl
  obtain ⟨var, k'⟩ := p
  simp only at hpk
  subst hpk
  obtain ⟨i, hi, hin, hl⟩ := C.rank var k' hp
  exact ⟨k', var, i, hk, hp, hi, hin, hl, hc1, hc2⟩

/-- what the loop finds in `umap` for a child of a node at level `j` -/
theorem DddmpSt.child {m : Mgr} {umap : List (Int × Int)} {D : DddmpNode → Prop}
    (C : DddmpRCtx f i2p levels nv o2n n l2v0)
    (hs : DddmpSt f i2p levels nv o2n n l2v0 m umap D) {j : Nat} (hj : j < n)
    (hD : ∀ y ∈ f.nodes, ∀ i, DddmpLvl i2p o2n y i → j < i → D y)
    {k : Int} (hk : k ∈ levels.map (·.2)) (hkj : dictGet o2n k = some (j : Int))
    {c : Int} (hc : DddmpChildOK f i2p k c) :
    ∃ r, dictGet umap (c.natAbs : Int) = some r ∧ m.tbl.Mem r ∧ j < m.tbl.levelOf r ∧
      ∀ α, den m.tbl r (asgOfMap l2v0 α) =
        evalFileF i2p levels f.nodes α (nv + 2).toNat (c.natAbs : Int) := by
  obtain ⟨n', hn', hu', k', hk', hlt⟩ := hc
  rcases C.wf.line n' hn' with ht | hnode
  · refine ⟨1, ?_, Or.inl rfl, ?_, ?_⟩
    · rw [← hu', ht.1]; exact hs.term
    · rw [levelOf_term _ _ rfl]
      have := hs.nvars
      unfold Mgr.nvars at this
      omega
    · intro α
      rw [den_one, ← hu', ht.1, C.wf.evalFileF_term α hn' ht]
  · obtain ⟨k₂, var, i', hk₂, hv, hi', _, _, _, _⟩ := C.lvl_of_node hnode
    rw [hk'] at hk₂
    cases hk₂
    have hji : j < i' := C.mono k k' j i' hk (List.mem_map.mpr ⟨(var, k'), hv, rfl⟩) hlt hkj hi'
    have hl : DddmpLvl i2p o2n n' i' := ⟨k', hk', hi'⟩
    obtain ⟨r, hr, hm, hlev, hden⟩ := hs.good n' hn' hnode (hD n' hn' i' hl hji)
    refine ⟨r, by rw [← hu']; exact hr, hm, ?_, ?_⟩
    · have := hlev i' hl
      omega
    · intro α
      rw [hden α, hu']

theorem DddmpSt.weaken {m : Mgr} {umap : List (Int × Int)} {D D' : DddmpNode → Prop}
    (hs : DddmpSt f i2p levels nv o2n n l2v0 m umap D)
    (h : ∀ y ∈ f.nodes, y.IsNode f i2p levels → D' y → D y) :
    DddmpSt f i2p levels nv o2n n l2v0 m umap D' :=
  ⟨hs.inv, hs.ctx, hs.l2v, hs.nvars, hs.term, fun y hy hyn hd => hs.good y hy hyn (h y hy hyn hd),
    hs.order, hs.exact, hs.off, hs.sched, hs.noRoots, hs.fire, hs.cache⟩

/-- one iteration of the inner loop of `load` -/
theorem DddmpSt.step (H : FoaSpec) {m : Mgr} {umap : List (Int × Int)} {D : DddmpNode → Prop}
    (C : DddmpRCtx f i2p levels nv o2n n l2v0)
    (hs : DddmpSt f i2p levels nv o2n n l2v0 m umap D) {j : Nat} (hj : j < n)
    (hD : ∀ y ∈ f.nodes, ∀ i, DddmpLvl i2p o2n y i → j < i → D y)
    {x : DddmpNode} (hx : x ∈ f.nodes) :
    ∃ m' umap', dddmpRebuildNode o2n (j : Int) umap (dddmpEntryOf i2p x) m = (.ok umap', m') ∧
      DddmpSt f i2p levels nv o2n n l2v0 m' umap'
        (fun y => D y ∨ (y = x ∧ DddmpLvl i2p o2n y j)) := by
  rcases C.wf.line x hx with ht | hnode
  · -- a terminal line: nothing happens
    refine ⟨m, umap, ?_, hs.weaken ?_⟩
    · simp [dddmpRebuildNode, dddmpEntryOf, ht.2.2.1, ht.2.2.2]
    · intro y hy hyn hd
      rcases hd with hd | ⟨rfl, _⟩
      · exact hd
      · exfalso
        have := hyn.1
        rw [ht.1] at this
        omega
  · obtain ⟨k, var, i, hk, hv, hi, hin, hl, hc1, hc2⟩ := C.lvl_of_node hnode
    have hkmem : k ∈ levels.map (·.2) := List.mem_map.mpr ⟨(var, k), hv, rfl⟩
    have hu1 := hnode.1
    have hthn := hnode.2.2.1
    have hels := hnode.2.2.2.1
    have hthn0 : x.thn ≠ 0 := by omega
    by_cases hij : i = j
    · subst hij
      obtain ⟨q, hq, hqm, hql, hqd⟩ := hs.child C hj hD hkmem hi hc1
      obtain ⟨p, hp, hpm, hpl, hpd⟩ := hs.child C hj hD hkmem hi hc2
      have hthnabs : (x.thn.natAbs : Int) = x.thn := by omega
      rw [hthnabs] at hq hqd
      have hwf := hs.inv.wf.toWF
      -- the else-edge, with its complement mark
      have hp'm : m.tbl.Mem (if x.els < 0 then -p else p) := by
        split
        · exact mem_neg hpm
        · exact hpm
      have hp'l : i < m.tbl.levelOf (if x.els < 0 then -p else p) := by
        split
        · rw [levelOf_neg]; exact hpl
        · exact hpl
      have hp'd : ∀ α, den m.tbl (if x.els < 0 then -p else p) (asgOfMap l2v0 α) =
          evalFileF i2p levels f.nodes α (nv + 2).toNat x.els := by
        intro α
        rw [evalFileF_abs _ _ _ _ _ x.els, ← hpd α]
        split
        · next h => rw [den_neg _ hwf _ _ hpm]; simp [h]
        · next h => simp [h]
      have hinv := hs.nvars
      obtain ⟨r, m', hfo, hinv', hext, hrm, hrl, hrd⟩ :=
        H.spec m i _ q hs.inv (by unfold Mgr.nvars at *; omega) hp'm hqm hp'l hql
      have hm' : m' = (findOrAddCore i (if x.els < 0 then -p else p) q m).2 := by rw [hfo]
      have hfr := dddmp_findOrAddCore_frame i (if x.els < 0 then -p else p) q m
      rw [← hm'] at hfr
      have hsd := H.side m i _ q hs.inv (by unfold Mgr.nvars at *; omega) hp'm hqm hp'l hql
      rw [← hm'] at hsd
      have hex' : RefExact m' (fun _ => 0) := by
        rw [hm']; exact findOrAddCore_refExact m _ i _ q hwf hs.exact
      have huabs : (x.u.natAbs : Int) = x.u := by omega
      refine ⟨m', dictSet umap x.u r, ?_, ?_⟩
      · simp [dddmpRebuildNode, dddmpEntryOf, hels, hthn0, hk, hi, hp, hq,
          dddmp_findOrAdd_eq_core _ _ _ _ hs.ctx, hfo, huabs]
      · refine ⟨hinv', hfr.2.2.trans hs.ctx, hfr.2.1.trans hs.l2v, ?_, ?_, ?_,
          hs.order.dddmp_of_maps_eq hsd.1.vars hsd.1.l2v, hex', hsd.1.lastLen.trans hs.off,
          hsd.1.sched.trans hs.sched, hsd.1.roots.trans hs.noRoots, hsd.2.1.trans hs.fire,
          hsd.2.2.trans hs.cache⟩
        · have := hext.nvars
          unfold Mgr.nvars at *
          omega
        · rw [dictGet_dictSet_ne _ _ _ _ (by omega)]
          exact hs.term
        · intro y hy hyn hd
          by_cases hyu : y.u = x.u
          · have hyx : y = x := C.wf.eq_of_u_eq hy hx hyu
            subst hyx
            refine ⟨r, dictGet_dictSet_same _ _ _, hrm, ?_, ?_⟩
            · intro i' hl'
              have : i' = i := hl'.det ⟨k, hk, hi⟩
              omega
            · intro α
              rw [hrd, C.wf.evalFileF_node C.hT α hy hyn hk hv, hqd α, hp'd α]
              have : asgOfMap l2v0 α i = α var.show := by simp [asgOfMap, hl]
              rw [this]
          · have hdy : D y := by
              rcases hd with hd | ⟨rfl, _⟩
              · exact hd
              · exact absurd rfl hyu
            obtain ⟨r', hr', hm', hlev', hden'⟩ := hs.good y hy hyn hdy
            refine ⟨r', ?_, hext.mem hm', ?_, ?_⟩
            · rw [dictGet_dictSet_ne _ _ _ _ hyu]; exact hr'
            · intro i' hl'
              rw [hext.levelOf hm']
              exact hlev' i' hl'
            · intro α
              rw [den_ext hext hwf _ _ hm']
              exact hden' α
    · -- a node of another level: nothing happens in this pass
      have hij' : ¬ ((i : Int) = (j : Int)) := by omega
      refine ⟨m, umap, ?_, hs.weaken ?_⟩
      · simp [dddmpRebuildNode, dddmpEntryOf, hels, hk, hi, hij']
      · intro y hy hyn hd
        rcases hd with hd | ⟨rfl, hl'⟩
        · exact hd
        · exact absurd (hl'.det ⟨k, hk, hi⟩).symm hij

/-- one pass `for u, (k, v, w) in bdd_succ.items()` at level `j` -/
theorem DddmpSt.levelPass (H : FoaSpec) (C : DddmpRCtx f i2p levels nv o2n n l2v0)
    {j : Nat} (hj : j < n) :
    ∀ (rest : List DddmpNode), (∀ x ∈ rest, x ∈ f.nodes) →
    ∀ (m : Mgr) (umap : List (Int × Int)) (D : DddmpNode → Prop),
      DddmpSt f i2p levels nv o2n n l2v0 m umap D →
      (∀ y ∈ f.nodes, ∀ i, DddmpLvl i2p o2n y i → j < i → D y) →
      ∃ m' umap', dddmpRebuildLevel o2n (j : Int) (rest.map (dddmpEntryOf i2p)) umap m =
          (.ok umap', m') ∧
        DddmpSt f i2p levels nv o2n n l2v0 m' umap'
          (fun y => D y ∨ (y ∈ rest ∧ DddmpLvl i2p o2n y j)) := by
  intro rest
  induction rest with
  | nil =>
    intro _ m umap D hs _
    exact ⟨m, umap, rfl, hs.weaken (fun y _ _ hd => by simpa using hd)⟩
  | cons x rest ih =>
    intro hsub m umap D hs hD
    obtain ⟨m1, umap1, h1, hs1⟩ := hs.step H C hj hD (hsub x List.mem_cons_self)
    obtain ⟨m2, umap2, h2, hs2⟩ := ih (fun y hy => hsub y (List.mem_cons_of_mem _ hy)) m1 umap1 _ hs1
      (fun y hy i hl hji => Or.inl (hD y hy i hl hji))
    refine ⟨m2, umap2, ?_, hs2.weaken ?_⟩
    · simp only [List.map_cons, dddmpRebuildLevel, h1, h2]
    · intro y _ _ hd
      rcases hd with hd | ⟨hy, hl⟩
      · exact Or.inl (Or.inl hd)
      · rcases List.mem_cons.mp hy with rfl | hy
        · exact Or.inl (Or.inr ⟨rfl, hl⟩)
        · exact Or.inr ⟨hy, hl⟩

/-- the loop `for j in range(n - 1, -1, -1)` from `c - 1` down to `0` -/
theorem DddmpSt.rebuild (H : FoaSpec) (C : DddmpRCtx f i2p levels nv o2n n l2v0) :
    ∀ (c : Nat), c ≤ n → ∀ (m : Mgr) (umap : List (Int × Int)),
      DddmpSt f i2p levels nv o2n n l2v0 m umap (fun y => ∃ i, DddmpLvl i2p o2n y i ∧ c ≤ i) →
      ∃ m' umap', dddmpRebuild o2n (f.nodes.map (dddmpEntryOf i2p)) c umap m = (.ok umap', m') ∧
        DddmpSt f i2p levels nv o2n n l2v0 m' umap' (fun _ => True) := by
  intro c
  induction c with
  | zero =>
    intro _ m umap hs
    refine ⟨m, umap, rfl, hs.weaken ?_⟩
    intro y _ hyn _
    obtain ⟨k, _, i, hk, _, hi, _⟩ := C.lvl_of_node hyn
    exact ⟨i, ⟨k, hk, hi⟩, Nat.zero_le _⟩
  | succ c ih =>
    intro hc m umap hs
    obtain ⟨m1, umap1, h1, hs1⟩ := DddmpSt.levelPass H C (j := c) (by omega) f.nodes
      (fun _ h => h) m umap _ hs (fun y _ i hl hji => ⟨i, hl, by omega⟩)
    obtain ⟨m2, umap2, h2, hs2⟩ := ih (by omega) m1 umap1 (hs1.weaken (by
      intro y _ _ hd
      obtain ⟨i, hl, hci⟩ := hd
      rcases Nat.eq_or_lt_of_le hci with he | hlt
      · subst he; exact Or.inr ⟨‹_›, hl⟩
      · exact Or.inl ⟨i, hl, by omega⟩))
    exact ⟨m2, umap2, by simp only [dddmpRebuild, h1, h2], hs2⟩

end Rebuild

/-! ### before the loop: header, body -/

theorem dddmpInfo2permid_T {f : DddmpFile} {ids permids : List Int} {i2p : List (DddmpTok × Int)} {nv : Int}
    (h : dddmpInfo2permid f ids permids = .ok i2p) (hn : f.nvars = some nv) :
    dictGet i2p (.str "T") = some (nv + 1) := by
  unfold dddmpInfo2permid at h
  split at h
  · cases h
  · simp only [hn, Except.ok.injEq] at h
    rw [← h]
    exact dictGet_dictSet_same _ _ _

theorem dddmpHeader_inv {f : DddmpFile} {i2p levels : List (DddmpTok × Int)} {roots : List Int}
    (h : dddmpHeader f = .ok (i2p, levels, roots)) :
    ∃ ids permids rootids, f.ids = some ids ∧ f.permids = some permids ∧ f.rootids = some rootids ∧
      dddmpInfo2permid f ids permids = .ok i2p ∧ dddmpLevels f permids = .ok levels ∧
      roots = dedupInts rootids := by
  unfold dddmpHeader at h
  split at h
  · cases h
  · split at h
    · next ids permids rootids hi hp hr =>
      split at h
      · cases h
      · next i2p' h1 =>
        split at h
        · cases h
        · next levels' h2 =>
          simp only [Except.ok.injEq, Prod.mk.injEq] at h
          obtain ⟨rfl, rfl, rfl⟩ := h
          exact ⟨ids, permids, rootids, hi, hp, hr, h1, h2, rfl⟩
    · cases h

theorem dddmpHeader_T {f : DddmpFile} {i2p levels : List (DddmpTok × Int)} {roots : List Int} {nv : Int}
    (h : dddmpHeader f = .ok (i2p, levels, roots)) (hn : f.nvars = some nv) :
    dictGet i2p (.str "T") = some (nv + 1) := by
  obtain ⟨_, _, _, _, _, _, h1, _, _⟩ := dddmpHeader_inv h
  exact dddmpInfo2permid_T h1 hn

theorem dddmpBodyLoop_ok {f : DddmpFile} {i2p levels : List (DddmpTok × Int)} {nv : Int}
    (hw : DddmpBodyWF f i2p levels nv) (hT : dictGet i2p (.str "T") = some (nv + 1)) :
    ∀ (rest : List DddmpNode) (acc : List (Int × DddmpEntry)), (∀ x ∈ rest, x ∈ f.nodes) →
      (acc.map (·.1) ++ rest.map (·.u)).Nodup →
      dddmpBodyLoop i2p acc rest = .ok (acc ++ rest.map (dddmpEntryOf i2p)) := by
  intro rest
  induction rest with
  | nil => intro acc _ _; simp [dddmpBodyLoop]
  | cons x rest ih =>
    intro acc hsub hnd
    have hx := hsub x List.mem_cons_self
    obtain ⟨k, hk, _, _, _⟩ := hw.lineLevel hT hx
    have hthn : ¬ (x.thn < 0) := by
      rcases hw.line x hx with ht | hnode
      · rw [ht.2.2.1]; omega
      · have := hnode.2.2.1; omega
    have hnot : x.u ∉ acc.map (·.1) := by
      intro hm
      have := (List.nodup_append.mp hnd).2.2 _ hm x.u (by simp)
      exact this rfl
    have hadd : dddmpAddNode i2p acc x = .ok (acc ++ [dddmpEntryOf i2p x]) := by
      simp only [dddmpAddNode, hk, hthn, if_false]
      rw [dictSet_of_not_mem _ _ _ hnot]
      simp [dddmpEntryOf, hk]
    rw [dddmpBodyLoop, hadd]
    simp only
    rw [ih _ (fun y hy => hsub y (List.mem_cons_of_mem _ hy))]
    · simp
    · simpa [dddmpEntryOf, List.append_assoc] using hnd

theorem dddmpBody_ok {f : DddmpFile} {i2p levels : List (DddmpTok × Int)} {nv : Int}
    (hw : DddmpBodyWF f i2p levels nv) (hT : dictGet i2p (.str "T") = some (nv + 1)) :
    dddmpBody f i2p = .ok (f.nodes.map (dddmpEntryOf i2p)) := by
  have := dddmpBodyLoop_ok hw hT f.nodes [] (fun _ h => h) (by simpa using hw.idsNodup)
  simp [dddmpBody, this, lenNe, hw.nnodes]

/-! ### the re-indexing of levels -/

theorem dddmpReindex_ok (L : List (DddmpTok × Int)) (hkeys : (L.map (·.1)).Nodup)
    (hvals : (L.map (·.2)).Nodup) :
    ∃ newLevels o2n, dddmpReindex L = .ok (newLevels, o2n) ∧
      newLevels.map (·.2) = (List.range L.length).map (fun (i : Nat) => (i : Int)) ∧
      (newLevels.map (·.1)).Perm (L.map (·.1)) ∧
      (∀ var k, (var, k) ∈ L → ∃ i : Nat, dictGet o2n k = some (i : Int) ∧
        (var, (i : Int)) ∈ newLevels ∧ (sortInts (L.map (·.2)))[i]? = some k) := by
  -- `perm`
  have hperm : dictOf (L.map fun p => (p.2, p.1)) = L.map fun p => (p.2, p.1) :=
    dictOf_nodup _ (by simpa [List.map_map, Function.comp_def] using hvals)
  have hpkeys : ((L.map fun p => (p.2, p.1)).map (·.1)).Nodup := by
    simpa [List.map_map, Function.comp_def] using hvals
  have hpk : (L.map fun p => (p.2, p.1)).map (·.1) = L.map (·.2) := by
    simp [List.map_map, Function.comp_def]
  -- the variable at an old level
  let vo : Int → DddmpTok := fun k => (dictGet (L.map fun p => (p.2, p.1)) k).getD default
  have hvo : ∀ var k, (var, k) ∈ L → dictGet (L.map fun p => (p.2, p.1)) k = some var := by
    intro var k hm
    exact dictGet_of_mem _ hpkeys (List.mem_map.mpr ⟨(var, k), hm, rfl⟩)
  have hvo' : ∀ var k, (var, k) ∈ L → vo k = var := by
    intro var k hm
    simp [vo, hvo var k hm]
  -- sorted levels
  have hSperm := sortInts_perm (L.map (·.2))
  have hSnd : (sortInts (L.map (·.2))).Nodup := hSperm.nodup_iff.mpr hvals
  have hSmem : ∀ k, k ∈ sortInts (L.map (·.2)) → ∃ var, (var, k) ∈ L := by
    intro k hk
    obtain ⟨p, hp, rfl⟩ := List.mem_map.mp (hSperm.mem_iff.mp hk)
    exact ⟨p.1, hp⟩
  have hSlen : (sortInts (L.map (·.2))).length = L.length := by
    simpa using hSperm.length_eq
  -- first `mapM`
  have hm1 : (sortInts (L.map (·.2))).zipIdx.mapM (dddmpPermItem (L.map fun p => (p.2, p.1))) =
      .ok ((sortInts (L.map (·.2))).zipIdx.map fun p => ((p.2 : Int), vo p.1)) := by
    apply dddmp_mapM_ok
    intro p hp
    obtain ⟨var, hv⟩ := hSmem p.1 (by
      have := List.mem_zipIdx_iff_getElem?.mp hp
      exact List.mem_of_getElem? this)
    simp [dddmpPermItem, vo, hvo var p.1 hv]
  -- `perm2`
  have hp2 : dictOf ((sortInts (L.map (·.2))).zipIdx.map fun p => ((p.2 : Int), vo p.1)) =
      (sortInts (L.map (·.2))).zipIdx.map fun p => ((p.2 : Int), vo p.1) := by
    apply dictOf_nodup
    have : (((sortInts (L.map (·.2))).zipIdx.map fun p => ((p.2 : Int), vo p.1)).map (·.1)) =
        (List.range' 0 (sortInts (L.map (·.2))).length).map (fun (i : Nat) => (i : Int)) := by
      rw [← List.zipIdx_map_snd 0 (sortInts (L.map (·.2))), List.map_map, List.map_map]
      rfl
    rw [this]
    exact nodup_map_of_inj_on _ _ (fun a _ b _ h => by omega) (List.nodup_range' (step := 1))
  -- `new_levels`
  have hNLeq : ((sortInts (L.map (·.2))).zipIdx.map fun p => ((p.2 : Int), vo p.1)).map
      (fun p => (p.2, p.1)) = (sortInts (L.map (·.2))).zipIdx.map fun p => (vo p.1, (p.2 : Int)) := by
    rw [List.map_map]; rfl
  have hNLk : ((sortInts (L.map (·.2))).zipIdx.map fun p => (vo p.1, (p.2 : Int))).map (·.1) =
      (sortInts (L.map (·.2))).map vo := by
    rw [List.map_map]
    conv => rhs; rw [← List.zipIdx_map_fst 0 (sortInts (L.map (·.2))), List.map_map]
    rfl
  have hNLkperm : ((sortInts (L.map (·.2))).map vo).Perm (L.map (·.1)) := by
    have h1 := hSperm.map vo
    rw [List.map_map] at h1
    have h2 : L.map (vo ∘ fun p => p.2) = L.map (·.1) :=
      List.map_congr_left (fun p hp => hvo' p.1 p.2 hp)
    rw [h2] at h1
    exact h1
  have hNLnd : (((sortInts (L.map (·.2))).zipIdx.map fun p => (vo p.1, (p.2 : Int))).map (·.1)).Nodup := by
    rw [hNLk]
    exact hNLkperm.nodup_iff.mpr hkeys
  have hNL : dictOf ((sortInts (L.map (·.2))).zipIdx.map fun p => (vo p.1, (p.2 : Int))) =
      (sortInts (L.map (·.2))).zipIdx.map fun p => (vo p.1, (p.2 : Int)) := dictOf_nodup _ hNLnd
  have hNLv : ((sortInts (L.map (·.2))).zipIdx.map fun p => (vo p.1, (p.2 : Int))).map (·.2) =
      (List.range L.length).map (fun (i : Nat) => (i : Int)) := by
    rw [List.range_eq_range', ← hSlen, ← List.zipIdx_map_snd 0 (sortInts (L.map (·.2))),
      List.map_map, List.map_map]
    rfl
  -- position of an old level among the sorted levels
  have hpos : ∀ var k, (var, k) ∈ L → ∃ i : Nat, (sortInts (L.map (·.2)))[i]? = some k ∧
      dictGet ((sortInts (L.map (·.2))).zipIdx.map fun p => (vo p.1, (p.2 : Int))) var =
        some (i : Int) := by
    intro var k hm
    have hkS : k ∈ sortInts (L.map (·.2)) :=
      hSperm.mem_iff.mpr (List.mem_map.mpr ⟨(var, k), hm, rfl⟩)
    obtain ⟨i, hi⟩ := List.getElem?_of_mem hkS
    refine ⟨i, hi, dictGet_of_mem _ hNLnd ?_⟩
    refine List.mem_map.mpr ⟨(k, i), List.mk_mem_zipIdx_iff_getElem?.mpr hi, ?_⟩
    simp [hvo' var k hm]
  -- second `mapM`
  have hm2 : L.mapM (dddmpO2nItem
      ((sortInts (L.map (·.2))).zipIdx.map fun p => (vo p.1, (p.2 : Int)))) =
      .ok (L.map fun p => (p.2,
        (dictGet ((sortInts (L.map (·.2))).zipIdx.map fun p => (vo p.1, (p.2 : Int))) p.1).getD 0)) := by
    apply dddmp_mapM_ok
    intro p hp
    obtain ⟨i, _, hi⟩ := hpos p.1 p.2 hp
    simp [dddmpO2nItem, hi]
  have ho2k : ((L.map fun p => (p.2,
        (dictGet ((sortInts (L.map (·.2))).zipIdx.map fun p => (vo p.1, (p.2 : Int))) p.1).getD 0)).map
        (·.1)) = L.map (·.2) := by
    rw [List.map_map]; rfl
  have ho2 := dictOf_nodup (L.map fun p => (p.2,
        (dictGet ((sortInts (L.map (·.2))).zipIdx.map fun p => (vo p.1, (p.2 : Int))) p.1).getD 0))
    (by rw [ho2k]; exact hvals)
  refine ⟨(sortInts (L.map (·.2))).zipIdx.map fun p => (vo p.1, (p.2 : Int)),
    L.map fun p => (p.2,
      (dictGet ((sortInts (L.map (·.2))).zipIdx.map fun p => (vo p.1, (p.2 : Int))) p.1).getD 0),
    ?_, hNLv, ?_, ?_⟩
  · unfold dddmpReindex
    simp only [hperm, hpk, hm1, hp2, hNLeq, hNL, hm2, ho2]
  · rw [hNLk]; exact hNLkperm
  · intro var k hm
    obtain ⟨i, hi, hd⟩ := hpos var k hm
    refine ⟨i, ?_, ?_, hi⟩
    · apply dictGet_of_mem _ (by rw [ho2k]; exact hvals)
      refine List.mem_map.mpr ⟨(var, k), hm, ?_⟩
      simp [hd]
    · exact dictGet_some_mem _ hd

/-! ### the new manager `BDD(new_levels)` -/

/-- a manager without nodes -/
def mgrOf (V : TreeMap String Nat) (W : TreeMap Nat String) : Mgr :=
  { tbl := { vars := V, l2v := W } }

theorem Inv.mgrOf (V : TreeMap String Nat) (W : TreeMap Nat String) : Inv (mgrOf V W) := by
  refine ⟨⟨⟨?_, ?_, ?_, ?_, ?_, ?_, ?_, ?_⟩, ?_⟩, ?_, ?_, ?_, ?_, ?_, ?_⟩ <;>
    simp [Tbl.node?, DD.mgrOf] <;> try decide

theorem addVar_fresh (var : String) (l : Int) (V : TreeMap String Nat) (W : TreeMap Nat String)
    (hv : V[var]? = none) (hl : 0 ≤ l) (hw : W[l.toNat]? = none) :
    addVar var (some l) (mgrOf V W) = (.ok l.toNat, mgrOf (V.insert var l.toNat) (W.insert l.toNat var)) := by
  have hl' : ¬ (l < 0) := by omega
  simp [addVar, bind, M.bind', M.get, M.set, mgrOf, hv, hw, hl', pure, M.pure']

/-- the variable tables after the variables `done` have been added -/
structure VarsQ (V : TreeMap String Nat) (W : TreeMap Nat String) (done : List (DddmpTok × Int)) : Prop where
  size : V.size = done.length
  vmem : ∀ s, V[s]? ≠ none → s ∈ done.map (·.1.show)
  wmem : ∀ i : Nat, W[i]? ≠ none → (i : Int) ∈ done.map (·.2)
  wget : ∀ var (i : Nat), (var, (i : Int)) ∈ done → W[i]? = some var.show

theorem dddmpAddVars_ok : ∀ (rest done : List (DddmpTok × Int)) (V : TreeMap String Nat)
    (W : TreeMap Nat String), VarsQ V W done →
    ((done ++ rest).map (·.1.show)).Nodup → ((done ++ rest).map (·.2)).Nodup →
    (∀ p ∈ rest, 0 ≤ p.2) →
    ∃ V' W', dddmpAddVars rest (mgrOf V W) = (.ok (), mgrOf V' W') ∧ VarsQ V' W' (done ++ rest) := by
  intro rest
  induction rest with
  | nil =>
    intro done V W hq _ _ _
    exact ⟨V, W, rfl, by simpa using hq⟩
  | cons p rest ih =>
    intro done V W hq hn hl hpos
    obtain ⟨var, l⟩ := p
    have hl0 : 0 ≤ l := hpos (var, l) List.mem_cons_self
    have hlt : ((l.toNat : Nat) : Int) = l := by omega
    have hvfresh : V[var.show]? = none := by
      apply Classical.byContradiction
      intro hne
      have hm := hq.vmem _ hne
      rw [List.map_append, List.map_cons] at hn
      exact (List.nodup_append.mp hn).2.2 _ hm _ List.mem_cons_self rfl
    have hwfresh : W[l.toNat]? = none := by
      apply Classical.byContradiction
      intro hne
      have hm := hq.wmem _ hne
      rw [hlt] at hm
      rw [List.map_append, List.map_cons] at hl
      exact (List.nodup_append.mp hl).2.2 _ hm _ List.mem_cons_self rfl
    have hstep := addVar_fresh var.show l V W hvfresh hl0 hwfresh
    have hq' : VarsQ (V.insert var.show l.toNat) (W.insert l.toNat var.show) (done ++ [(var, l)]) := by
      refine ⟨?_, ?_, ?_, ?_⟩
      · have : V.contains var.show = false := by
          rw [TreeMap.contains_eq_isSome_getElem?, hvfresh]; rfl
        rw [TreeMap.size_insert, this]
        simp [hq.size]
      · intro s hs
        rw [TreeMap.getElem?_insert] at hs
        split at hs
        · next h =>
          have : var.show = s := by simpa using h
          simp [← this]
        · have := hq.vmem s hs
          simp only [List.map_append, List.mem_append]
          exact Or.inl this
      · intro i hi
        rw [TreeMap.getElem?_insert] at hi
        split at hi
        · next h =>
          have : l.toNat = i := by simpa using h
          simp only [List.map_append, List.mem_append]
          right
          simp [← this, hlt]
        · have := hq.wmem i hi
          simp only [List.map_append, List.mem_append]
          exact Or.inl this
      · intro var' i hm
        rw [TreeMap.getElem?_insert]
        rcases List.mem_append.mp hm with hd | hd
        · have hne : ¬ (compare l.toNat i = .eq) := by
            intro h
            have : l.toNat = i := by simpa using h
            rw [List.map_append, List.map_cons] at hl
            have hmem : (i : Int) ∈ done.map (·.2) := List.mem_map.mpr ⟨(var', (i : Int)), hd, rfl⟩
            refine (List.nodup_append.mp hl).2.2 _ hmem l List.mem_cons_self ?_
            omega
          simp [hne, hq.wget var' i hd]
        · simp only [List.mem_singleton, Prod.mk.injEq] at hd
          obtain ⟨rfl, hil⟩ := hd
          have : l.toNat = i := by omega
          simp [this]
    obtain ⟨V', W', hrest, hq''⟩ := ih (done ++ [(var, l)]) _ _ hq'
      (by simpa [List.append_assoc] using hn) (by simpa [List.append_assoc] using hl)
      (fun p hp => hpos p (List.mem_cons_of_mem _ hp))
    refine ⟨V', W', ?_, by simpa [List.append_assoc] using hq''⟩
    rw [dddmpAddVars]
    show (match addVar var.show (some l) (mgrOf V W) with
      | (Except.error e, m') => (Except.error e, m')
      | (Except.ok _, m') => dddmpAddVars rest m') = _
    rw [hstep]
    exact hrest

/-- `add_var(var, level)` with the next bottom level is `add_var(var)` -/
theorem addVar_at_bottom (m : Mgr) (var : String) (hnew : m.tbl.vars[var]? = none) :
    addVar var (some (m.nvars : Int)) m = addVar var none m := by
  unfold addVar
  simp [bind, M.bind', M.get, hnew]

/-- `BDD(new_levels)` declares the variables of `new_levels` in the order of the dictionary,
i.e. level 0 first: every `add_var(var, level)` appends at the bottom, and the name maps stay
inverse bijections onto `0..n-1` -/
theorem dddmpAddVars_orderOK : ∀ (rest : List (DddmpTok × Int)) (m : Mgr), Inv m → OrderOK m.tbl →
    rest.map (·.2) = (List.range' m.nvars rest.length).map (fun (i : Nat) => (i : Int)) →
    (rest.map (·.1.show)).Nodup → (∀ p ∈ rest, m.tbl.vars[p.1.show]? = none) →
    ∃ m', dddmpAddVars rest m = (.ok (), m') ∧ OrderOK m'.tbl := by
  intro rest
  induction rest with
  | nil => intro m _ hO _ _ _; exact ⟨m, rfl, hO⟩
  | cons p rest ih =>
    intro m hI hO hv hn hfresh
    obtain ⟨var, l⟩ := p
    simp only [List.map_cons, List.length_cons, List.range'_succ, List.cons.injEq] at hv
    obtain ⟨hl, hv'⟩ := hv
    subst hl
    have hnew : m.tbl.vars[var.show]? = none := hfresh (var, _) List.mem_cons_self
    have hstep : addVar var.show (some (m.nvars : Int)) m = (.ok m.nvars, addVarState m var.show) := by
      rw [addVar_at_bottom m _ hnew]
      exact addVar_new m _ hnew hO.l2v_none
    obtain ⟨hI1, hO1, hn1, -, -, -, -, -⟩ := addVar_new_spec m hI hO var.show hnew _ rfl
    simp only [List.map_cons, List.nodup_cons] at hn
    have hfresh1 : ∀ p ∈ rest, (addVarState m var.show).tbl.vars[p.1.show]? = none := by
      intro p hp
      show (m.tbl.vars.insert var.show m.nvars)[p.1.show]? = none
      rw [TreeMap.getElem?_insert]
      have hne : ¬ (compare var.show p.1.show = .eq) := by
        intro h
        have : var.show = p.1.show := by simpa using h
        exact hn.1 (this ▸ List.mem_map.mpr ⟨p, hp, rfl⟩)
      simp only [hne, if_false]
      exact hfresh p (List.mem_cons_of_mem _ hp)
    obtain ⟨m', hrun, hO'⟩ := ih (addVarState m var.show) hI1 hO1
      (by rw [show (addVarState m var.show).nvars = m.nvars + 1 from hn1]; exact hv') hn.2 hfresh1
    refine ⟨m', ?_, hO'⟩
    rw [dddmpAddVars]
    show (match addVar var.show (some (m.nvars : Int)) m with
      | (Except.error e, m') => (Except.error e, m')
      | (Except.ok _, m') => dddmpAddVars rest m') = _
    rw [hstep]
    exact hrun

theorem dddmpNewMgr_ok (NL : List (DddmpTok × Int))
    (hv : NL.map (·.2) = (List.range NL.length).map (fun (i : Nat) => (i : Int)))
    (hnames : (NL.map (·.1.show)).Nodup) :
    ∃ V W, dddmpNewMgr NL = .ok (mgrOf V W) ∧ V.size = NL.length ∧
      (∀ var (i : Nat), (var, (i : Int)) ∈ NL → W[i]? = some var.show) ∧
      OrderOK (mgrOf V W).tbl := by
  have hmem : ∀ k : Int, k ∈ NL.map (·.2) ↔ ∃ i : Nat, i < NL.length ∧ (i : Int) = k := by
    intro k
    rw [hv]
    simp [List.mem_map, List.mem_range]
  have hokv : ((List.range NL.length).all (fun i => (NL.map (·.2)).contains (i : Int)) &&
      (NL.map (·.2)).all (fun k => decide (0 ≤ k) && decide (k < (NL.length : Int)))) = true := by
    rw [Bool.and_eq_true, List.all_eq_true, List.all_eq_true]
    constructor
    · intro i hi
      rw [List.contains_iff_mem, hmem]
      exact ⟨i, List.mem_range.mp hi, rfl⟩
    · intro k hk
      obtain ⟨i, hi, rfl⟩ := (hmem k).mp hk
      simp
      omega
  have hvnd : ((([] : List (DddmpTok × Int)) ++ NL).map (·.2)).Nodup := by
    rw [List.nil_append, hv]
    exact nodup_map_of_inj_on _ _ (fun a _ b _ h => by omega) List.nodup_range
  have hpos : ∀ p ∈ NL, 0 ≤ p.2 := by
    intro p hp
    obtain ⟨i, _, hi⟩ := (hmem p.2).mp (List.mem_map.mpr ⟨p, hp, rfl⟩)
    omega
  have hq0 : VarsQ ({} : TreeMap String Nat) ({} : TreeMap Nat String) [] :=
    ⟨by simp, by simp, by simp, by simp⟩
  obtain ⟨V, W, hrun, hq⟩ := dddmpAddVars_ok NL [] {} {} hq0 (by simpa using hnames) hvnd hpos
  have hord : OrderOK (mgrOf V W).tbl := by
    obtain ⟨m', hrun', hO'⟩ := dddmpAddVars_orderOK NL ({} : Mgr) Inv.init OrderOK.empty
      (by rw [hv, List.range_eq_range']; rfl) hnames (fun p _ => by simp)
    have e : (({} : Mgr)) = mgrOf {} {} := rfl
    rw [e, hrun] at hrun'
    have : m' = mgrOf V W := by
      have := congrArg Prod.snd hrun'
      exact this.symm
    rw [← this]; exact hO'
  refine ⟨V, W, ?_, by simpa using hq.size, fun var i hm => hq.wget var i (by simpa using hm), hord⟩
  unfold dddmpNewMgr
  simp only [hokv]
  have : (({} : Mgr)) = mgrOf {} {} := rfl
  rw [this, hrun]
  rfl

/-- exact counts in a manager without nodes: only the terminal, counted once -/
theorem refExact_mgrOf (V : TreeMap String Nat) (W : TreeMap Nat String) :
    RefExact (mgrOf V W) (fun _ => 0) := by
  have h0 : RefExact ({} : Mgr) (fun _ => 0) := by
    refine ⟨?_, ?_, ?_⟩
    · intro u
      show ((({} : TreeMap Nat Nat).insert 1 1)[u]?).isSome ↔ (u = 1 ∨ ((({} : Tbl).node? u).isSome))
      rw [TreeMap.getElem?_insert]
      by_cases h : u = 1
      · subst h; simp
      · have : ¬ (1 = u) := fun hh => h hh.symm
        simp [h, this, Tbl.node?]
    · intro u c hc
      have hc' : ((({} : TreeMap Nat Nat).insert 1 1)[u]?) = some c := hc
      rw [TreeMap.getElem?_insert] at hc'
      by_cases h : u = 1
      · subst h
        simp at hc'
        subst hc'
        have : indeg ({} : Tbl) 1 = 0 := by
          cases hz : indeg ({} : Tbl) 1 with
          | zero => rfl
          | succ z =>
            obtain ⟨k, n, hk, -⟩ := indeg_pos (t := ({} : Tbl)) (u := 1) (by omega)
            simp [Tbl.node?] at hk
        simp [this]
      · have : ¬ (1 = u) := fun hh => h hh.symm
        simp [this] at hc'
    · intro u _; rfl
  refine ⟨?_, ?_, ?_⟩
  · intro u; exact h0.dom u
  · intro u c hc
    have := h0.cnt u c hc
    rw [indeg_congr (t := ({} : Tbl)) (t' := (mgrOf V W).tbl) (fun _ => rfl)]
    exact this
  · intro u hu; exact h0.extZero u hu

/-! ### `load` on a well-formed file -/

/-- what `load` leaves besides the nodes: the rest of the reachable-state invariant (order
maps inverse bijections onto `0..n-1`, counts exact with NOBODY holding a reference — the
loader takes no reference on the roots —, dynamic reordering not enabled, outside a context,
no schedule, empty computed table), and the ORDER: the manager has one variable per entry of
the header's `levels` table, and the variable of file level `k` sits at the rank of `k` among
the file levels (gaps in `.permids` closed, relative order kept) -/
structure DddmpLoaded (levels : List (DddmpTok × Int)) (m : Mgr) : Prop where
  order : OrderOK m.tbl
  exact : RefExact m (fun _ => 0)
  off : m.lastLen = none
  ctx : m.ctx = false
  sched : m.sched = []
  fire : m.fireIn = none
  cache : m.cache = {}
  nvars : m.nvars = levels.length
  rank : ∀ var k, (var, k) ∈ levels → ∃ i : Nat, (sortInts (levels.map (·.2)))[i]? = some k ∧
    m.tbl.l2v[i]? = some var.show ∧ m.tbl.vars[var.show]? = some i

theorem DddmpLoaded.setRoots {levels : List (DddmpTok × Int)} {m : Mgr} (h : DddmpLoaded levels m)
    (rs : List Int) : DddmpLoaded levels { m with roots := rs } :=
  ⟨h.order, h.exact.congr rfl rfl, h.off, h.ctx, h.sched, h.fire, h.cache, h.nvars, h.rank⟩

/-- the rebuild succeeds on a well-formed file; the manager satisfies the invariant; `umap`
sends every node number of the file to a reference that denotes, by variable name, what
the node list says — whatever the numbering of the nodes is -/
theorem dddmpLoadCore_good_of_foaSpec (H : FoaSpec) (f : DddmpFile) (hf : f.WF) :
    ∃ m umap roots, dddmpLoadCore f = .ok (m, umap, roots) ∧ Inv m ∧
      (∀ x ∈ f.nodes, ∃ r, dictGet umap x.u = some r ∧ m.tbl.Mem r ∧
        ∀ α, den m.tbl r (dddmpAsgOf m.tbl α) = evalFile f α x.u) ∧
      m.roots = [] ∧
      ∀ i2p levels roots', dddmpHeader f = .ok (i2p, levels, roots') → DddmpLoaded levels m := by
  obtain ⟨i2p, levels, roots, nv, hh, hnv, hw, _⟩ := hf
  have hT := dddmpHeader_T hh hnv
  have hbody := dddmpBody_ok hw hT
  have hkeys : (levels.map (·.1)).Nodup := by
    have h := hw.namesNodup
    have e : levels.map (·.1.show) = (levels.map (·.1)).map DddmpTok.show := by rw [List.map_map]; rfl
    rw [e] at h
    exact nodup_of_nodup_map _ _ h
  obtain ⟨NL, o2n, hre, hNLv, hNLperm, hrank⟩ := dddmpReindex_ok levels hkeys hw.levelsNodup
  have hlen : NL.length = levels.length := by
    have := congrArg List.length hNLv
    simpa using this
  have hNLnames : (NL.map (·.1.show)).Nodup := by
    have e : NL.map (·.1.show) = (NL.map (·.1)).map DddmpTok.show := by rw [List.map_map]; rfl
    have e' : levels.map (·.1.show) = (levels.map (·.1)).map DddmpTok.show := by rw [List.map_map]; rfl
    rw [e]
    exact (hNLperm.map DddmpTok.show).nodup_iff.mpr (e' ▸ hw.namesNodup)
  obtain ⟨V, W, hnm, hsize, hW, hOrd⟩ := dddmpNewMgr_ok NL (by rw [hlen]; exact hNLv) hNLnames
  have hSlen : (sortInts (levels.map (·.2))).length = levels.length := by
    simpa using (sortInts_perm (levels.map (·.2))).length_eq
  have C : DddmpRCtx f i2p levels nv o2n NL.length W := by
    refine ⟨hw, hT, ?_, ?_⟩
    · intro var k hm
      obtain ⟨i, hi, hmem, hS⟩ := hrank var k hm
      refine ⟨i, hi, ?_, hW var i hmem⟩
      have := (List.getElem?_eq_some_iff.mp hS).1
      omega
    · intro k k' i i' hk hk' hlt hi hi'
      obtain ⟨p, hp, rfl⟩ := List.mem_map.mp hk
      obtain ⟨p', hp', rfl⟩ := List.mem_map.mp hk'
      obtain ⟨j, hj, _, hS⟩ := hrank p.1 p.2 hp
      obtain ⟨j', hj', _, hS'⟩ := hrank p'.1 p'.2 hp'
      rw [hi] at hj
      rw [hi'] at hj'
      have e1 : i = j := by have := Option.some.inj hj; omega
      have e2 : i' = j' := by have := Option.some.inj hj'; omega
      subst e1 e2
      exact sorted_index_lt (sortInts_sorted _) hS hS' hlt
  have hs0 : DddmpSt f i2p levels nv o2n NL.length W (mgrOf V W) dddmpUmap0
      (fun y => ∃ i, DddmpLvl i2p o2n y i ∧ NL.length ≤ i) := by
    refine ⟨Inv.mgrOf V W, rfl, rfl, hsize, by decide, ?_, hOrd, refExact_mgrOf V W, rfl, rfl, rfl,
      rfl, rfl⟩
    intro y _ hyn hd
    exfalso
    obtain ⟨i, hl, hge⟩ := hd
    obtain ⟨k, _, i', hk, _, hi', hlt, _⟩ := C.lvl_of_node hyn
    have := hl.det ⟨k, hk, hi'⟩
    omega
  obtain ⟨m, umap, hrb, hs⟩ := DddmpSt.rebuild H C NL.length (Nat.le_refl _) _ _ hs0
  refine ⟨m, umap, roots, ?_, hs.inv, ?_, hs.noRoots, ?_⟩
  · simp only [dddmpLoadCore, hh, hbody, hre, hnm, hrb]
  rotate_left
  · intro i2p' levels' roots' hh'
    rw [hh] at hh'
    simp only [Except.ok.injEq, Prod.mk.injEq] at hh'
    obtain ⟨-, rfl, -⟩ := hh'
    refine ⟨hs.order, hs.exact, hs.off, hs.ctx, hs.sched, hs.fire, hs.cache, ?_, ?_⟩
    · rw [hs.nvars, hlen]
    · intro var k hm
      obtain ⟨i, _, hmem, hS⟩ := hrank var k hm
      have hl : m.tbl.l2v[i]? = some var.show := by rw [hs.l2v]; exact hW var i hmem
      exact ⟨i, hS, hl, (hs.order.inv _ _).mpr hl⟩
  · intro x hx
    have hev : ∀ α y, evalFile f α y = evalFileF i2p levels f.nodes α (nv + 2).toNat y := by
      intro α y
      simp [evalFile, hh, hnv]
    have hasg : ∀ α, dddmpAsgOf m.tbl α = asgOfMap W α := by
      intro α
      show asgOfMap m.tbl.l2v α = _
      rw [hs.l2v]
    rcases hw.line x hx with ht | hnode
    · refine ⟨1, by rw [ht.1]; exact hs.term, Or.inl rfl, ?_⟩
      intro α
      rw [den_one, hev, ht.1, hw.evalFileF_term α hx ht]
    · obtain ⟨r, hr, hm, _, hden⟩ := hs.good x hx hnode trivial
      refine ⟨r, hr, hm, ?_⟩
      intro α
      rw [hasg, hev]
      exact hden α

theorem dddmpLoadCore_nodes_of_foaSpec (H : FoaSpec) (f : DddmpFile) (hf : f.WF) :
    ∃ m umap roots, dddmpLoadCore f = .ok (m, umap, roots) ∧ Inv m ∧
      ∀ x ∈ f.nodes, ∃ r, dictGet umap x.u = some r ∧ m.tbl.Mem r ∧
        ∀ α, den m.tbl r (dddmpAsgOf m.tbl α) = evalFile f α x.u := by
  obtain ⟨m, umap, roots, h, hi, hn, _, _⟩ := dddmpLoadCore_good_of_foaSpec H f hf
  exact ⟨m, umap, roots, h, hi, hn⟩

/-! ### the roots -/

/-- the third component of `dddmpLoadCore` is the `roots` of the header -/
theorem dddmpLoadCore_roots {f : DddmpFile} {m : Mgr} {umap : List (Int × Int)} {roots : List Int}
    (h : dddmpLoadCore f = .ok (m, umap, roots)) :
    ∃ i2p levels, dddmpHeader f = .ok (i2p, levels, roots) := by
  unfold dddmpLoadCore at h
  split at h
  · cases h
  · next i2p levels roots' hh =>
    refine ⟨i2p, levels, ?_⟩
    split at h
    · cases h
    · split at h
      · cases h
      · split at h
        · cases h
        · split at h
          · cases h
          · simp only [Except.ok.injEq, Prod.mk.injEq] at h
            rw [← h.2.2]; exact hh

/-- the roots of `m` denote, by variable name and as a set of functions, the root entries
of the file (`bdd.roots` is a `set`: which root entry became which element is not
observable) -/
def DddmpRootsDenote (f : DddmpFile) (m : Mgr) : Prop :=
  (∀ ρ ∈ f.rootids.getD [], ∃ r ∈ m.roots, m.tbl.Mem r ∧
      ∀ α, den m.tbl r (dddmpAsgOf m.tbl α) = evalFile f α ρ) ∧
  (∀ r ∈ m.roots, ∃ ρ ∈ f.rootids.getD [],
      ∀ α, den m.tbl r (dddmpAsgOf m.tbl α) = evalFile f α ρ)

/-- each root entry, translated through `umap` with its sign, denotes its function -/
theorem dddmpLoadCore_spec_of_foaSpec (H : FoaSpec) (f : DddmpFile) (hf : f.WF) :
    ∃ m umap roots, dddmpLoadCore f = .ok (m, umap, roots) ∧ Inv m ∧
      (∀ x ∈ f.nodes, ∃ r, dictGet umap x.u = some r ∧ m.tbl.Mem r ∧
        ∀ α, den m.tbl r (dddmpAsgOf m.tbl α) = evalFile f α x.u) ∧
      (∀ ρ ∈ f.rootids.getD [], ∃ r, dictGet umap (ρ.natAbs : Int) = some r ∧
        m.tbl.Mem (if ρ > 0 then r else -r) ∧
        ∀ α, den m.tbl (if ρ > 0 then r else -r) (dddmpAsgOf m.tbl α) = evalFile f α ρ) ∧
      roots = dedupInts (f.rootids.getD []) ∧
      (∀ i2p levels roots', dddmpHeader f = .ok (i2p, levels, roots') → DddmpLoaded levels m) := by
  obtain ⟨m, umap, roots', hload, hinv, hnodes, _, hgood⟩ := dddmpLoadCore_good_of_foaSpec H f hf
  obtain ⟨i2p, levels, roots, nv, hh, hnv, hw, hroots⟩ := hf
  obtain ⟨_, _, rootids, _, _, hrid, _, _, hrd⟩ := dddmpHeader_inv hh
  obtain ⟨_, _, hh'⟩ := dddmpLoadCore_roots hload
  rw [hh] at hh'
  simp only [Except.ok.injEq, Prod.mk.injEq] at hh'
  obtain ⟨_, _, rfl⟩ := hh'
  refine ⟨m, umap, roots, hload, hinv, hnodes, ?_, ?_, hgood⟩
  · intro ρ hρ
    rw [hrid] at hρ
    simp only [Option.getD_some] at hρ
    have hρ' : ρ ∈ roots := by rw [hrd]; exact (mem_dedupInts _ _).mpr hρ
    obtain ⟨x, hx, hxu⟩ := hroots ρ hρ'
    obtain ⟨r, hr, hm, hden⟩ := hnodes x hx
    refine ⟨r, by rw [← hxu]; exact hr, ?_, ?_⟩
    · split
      · exact hm
      · exact mem_neg hm
    · intro α
      have hev : ∀ y, evalFile f α y = evalFileF i2p levels f.nodes α (nv + 2).toNat y := by
        intro y; simp [evalFile, hh, hnv]
      have hx0 : 0 < x.u := by
        rcases hw.line x hx with ht | hn
        · rw [ht.1]; omega
        · have := hn.1; omega
      have hev2 : evalFile f α ρ = ((decide (ρ < 0)) ^^ evalFile f α x.u) := by
        rw [hev, hev, evalFileF_abs, hxu]
      rw [hev2, ← hden α]
      split
      · next hpos =>
        have : ¬ (ρ < 0) := by omega
        simp [this]
      · next hpos =>
        have : ρ < 0 := by omega
        rw [den_neg _ hinv.wf.toWF _ _ hm]
        simp [this]
  · rw [hrd, hrid]; rfl

/-- `dd.dddmp.load` on a well-formed file (any numbering of the nodes, levels with or
without gaps): it succeeds, the manager satisfies the invariant, every node number of the
file is mapped to a reference denoting (by variable name) what the node list says, and
`roots` denotes exactly the functions of the root entries of the file -/
theorem dddmpLoad_good_of_foaSpec (H : FoaSpec) (f : DddmpFile) (hf : f.WF) :
    ∃ m umap, loadDddmpU f = .ok (m, umap) ∧ loadDddmp f = .ok m ∧ Inv m ∧
      (∀ x ∈ f.nodes, ∃ r, dictGet umap x.u = some r ∧ m.tbl.Mem r ∧
        ∀ α, den m.tbl r (dddmpAsgOf m.tbl α) = evalFile f α x.u) ∧
      DddmpRootsDenote f m ∧
      (∀ i2p levels roots', dddmpHeader f = .ok (i2p, levels, roots') → DddmpLoaded levels m) ∧
      (∀ r ∈ m.roots, m.tbl.Mem r) := by
  obtain ⟨m, umap, roots, hload, hinv, hnodes, hroots, hmr, hgood⟩ :=
    dddmpLoadCore_spec_of_foaSpec H f hf
  let g : Int → Int := fun ρ =>
    if ρ > 0 then (dictGet umap (ρ.natAbs : Int)).getD 0 else -(dictGet umap (ρ.natAbs : Int)).getD 0
  have hg : ∀ ρ ∈ f.rootids.getD [], dddmpRootItem umap ρ = .ok (g ρ) ∧ m.tbl.Mem (g ρ) ∧
      ∀ α, den m.tbl (g ρ) (dddmpAsgOf m.tbl α) = evalFile f α ρ := by
    intro ρ hρ
    obtain ⟨r, hr, hm, hden⟩ := hroots ρ hρ
    have e : g ρ = if ρ > 0 then r else -r := by simp [g, hr]
    rw [e]
    refine ⟨?_, hm, hden⟩
    simp [dddmpRootItem, hr]
  have hmem : ∀ ρ, ρ ∈ roots ↔ ρ ∈ f.rootids.getD [] := by
    intro ρ; rw [hmr]; exact mem_dedupInts _ _
  have hmap : roots.mapM (dddmpRootItem umap) = .ok (roots.map g) :=
    dddmp_mapM_ok _ _ _ (fun ρ hρ => (hg ρ ((hmem ρ).mp hρ)).1)
  have hU : loadDddmpU f = .ok ({ m with roots := dedupInts (roots.map g) }, umap) := by
    simp [loadDddmpU, hload, hmap]
  refine ⟨{ m with roots := dedupInts (roots.map g) }, umap, hU, by simp [loadDddmp, hU, Except.map],
    ?_, hnodes, ⟨?_, ?_⟩, fun i2p levels roots' hh => (hgood i2p levels roots' hh).setRoots _, ?_⟩
  rotate_right
  · intro r hr
    obtain ⟨ρ, hρ, rfl⟩ := List.mem_map.mp ((mem_dedupInts _ _).mp hr)
    exact (hg ρ ((hmem ρ).mp hρ)).2.1
  · exact ⟨hinv.wf, hinv.pred, hinv.freeGe, hinv.free, hinv.refOne, hinv.refDom, hinv.cache⟩
  · intro ρ hρ
    refine ⟨g ρ, ?_, (hg ρ hρ).2.1, (hg ρ hρ).2.2⟩
    exact (mem_dedupInts _ _).mpr (List.mem_map.mpr ⟨ρ, (hmem ρ).mpr hρ, rfl⟩)
  · intro r hr
    obtain ⟨ρ, hρ, rfl⟩ := List.mem_map.mp ((mem_dedupInts _ _).mp hr)
    exact ⟨ρ, (hmem ρ).mp hρ, (hg ρ ((hmem ρ).mp hρ)).2.2⟩

theorem dddmpLoad_spec_of_foaSpec (H : FoaSpec) (f : DddmpFile) (hf : f.WF) :
    ∃ m umap, loadDddmpU f = .ok (m, umap) ∧ loadDddmp f = .ok m ∧ Inv m ∧
      (∀ x ∈ f.nodes, ∃ r, dictGet umap x.u = some r ∧ m.tbl.Mem r ∧
        ∀ α, den m.tbl r (dddmpAsgOf m.tbl α) = evalFile f α x.u) ∧
      DddmpRootsDenote f m := by
  obtain ⟨m, umap, h1, h2, h3, h4, h5, _, _⟩ := dddmpLoad_good_of_foaSpec H f hf
  exact ⟨m, umap, h1, h2, h3, h4, h5⟩

end DD
