/-
  DDProofs.DddmpProofs — specification and proof of the model of `dd.dddmp.load`
  (`DD/Dddmp.lean`): semantics of a file (`evalFile`), well-formed files
  (`DddmpFile.WF`), and the rebuild loop.
-/
import DD.Dddmp
import DDProofs.Inv
import DDProofs.DddmpLists
open Std

namespace DD

/-! ### the specification of `find_or_add` the proofs rest on

(the full proof of this statement lives in `DDProofs/FindOrAdd.lean`; here it is a
hypothesis, and every theorem that uses it is named `…_of_foaSpec`) -/

structure FoaSpec : Prop where
  spec : ∀ (m : Mgr) (i : Nat) (v w : Int), Inv m → i < m.nvars → m.tbl.Mem v → m.tbl.Mem w →
    i < m.tbl.levelOf v → i < m.tbl.levelOf w →
    ∃ r m', findOrAddCore i v w m = (.ok r, m') ∧ Inv m' ∧ Ext m.tbl m'.tbl ∧ m'.tbl.Mem r ∧
      i ≤ m'.tbl.levelOf r ∧
      (∀ a, den m'.tbl r a = if a i then den m.tbl w a else den m.tbl v a)

/-! ### what `find_or_add` leaves alone -/

theorem incref_frame {u : Int} {m m' : Mgr} {r : Except Err Unit} (h : incref u m = (r, m')) :
    m'.tbl = m.tbl ∧ m'.ctx = m.ctx := by
  unfold incref at h
  split at h <;> (cases h; exact ⟨rfl, rfl⟩)

theorem findOrAddCore_frame (i : Nat) (v w : Int) (m : Mgr) :
    (findOrAddCore i v w m).2.tbl.vars = m.tbl.vars ∧
    (findOrAddCore i v w m).2.tbl.l2v = m.tbl.l2v ∧
    (findOrAddCore i v w m).2.ctx = m.ctx := by
  unfold findOrAddCore
  dsimp only
  repeat' split
  all_goals first
    | exact ⟨rfl, rfl, rfl⟩
    | (rename_i ha _ _ _ hb
       have a := incref_frame ha
       have b := incref_frame hb
       simp [a.1, a.2, b.1, b.2]
       done)
    | (rename_i ha
       have a := incref_frame ha
       simp [a.1, a.2]
       done)

theorem findOrAdd_eq_core (i : Nat) (v w : Int) (m : Mgr) (hc : m.ctx = false) :
    findOrAdd (i : Int) v w m = findOrAddCore i v w m := by
  have hi : ¬ ((i : Int) < 0) := by omega
  simp [findOrAdd, bind, M.bind', M.get, hc, hi]

/-! ### semantics of a file -/

/-- the variable a node line is labelled with: the one `levels` puts at the level
that `info2permid` gives to the `info` column -/
def dddmpVarOf (i2p levels : List (Tok × Int)) (info : Tok) : Option Tok :=
  match dictGet i2p info with
  | none => none
  | some k => (levels.find? (fun p => p.2 = k)).map (·.1)

/-- value of the (signed) node number `x` of a file under the assignment `α` of the
variable NAMES, read off the node list: a line labelled `T` is the constant true,
a line `u info _ then else` is `if info then [then] else [else]`, a negative number
is the complement (an unlisted number or exhausted `fuel` reads as false, complemented
for a negative number).  `fuel` bounds the depth. -/
def evalFileF (i2p levels : List (Tok × Int)) (nodes : List DddmpNode) (α : String → Bool) :
    Nat → Int → Bool
  | 0, x => decide (x < 0)
  | fuel + 1, x =>
    (decide (x < 0)) ^^
      (match nodes.find? (fun n => n.u = (x.natAbs : Int)) with
      | none => false
      | some n =>
        if n.info = .str "T" then true else
          match dddmpVarOf i2p levels n.info with
          | none => false
          | some var =>
            if α var.show then evalFileF i2p levels nodes α fuel n.thn
            else evalFileF i2p levels nodes α fuel n.els)

/-- `evalFileF` with the tables of the file's own header and depth `nvars + 2` -/
def evalFile (f : DddmpFile) (α : String → Bool) (x : Int) : Bool :=
  match dddmpHeader f with
  | .ok (i2p, levels, _) => evalFileF i2p levels f.nodes α ((f.nvars.getD 0 + 2).toNat) x
  | .error _ => false

/-- assignment of levels induced by an assignment of names, in a manager -/
def asgOf (t : Tbl) (α : String → Bool) : Asg := fun i =>
  match t.l2v[i]? with
  | some v => α v
  | none => false

/-! ### well-formed files -/

/-- the node `c` (a "then" or "else" column) is listed and lies strictly below level `k` -/
def DddmpChildOK (f : DddmpFile) (i2p : List (Tok × Int)) (k : Int) (c : Int) : Prop :=
  ∃ n' ∈ f.nodes, n'.u = (c.natAbs : Int) ∧ ∃ k', dictGet i2p n'.info = some k' ∧ k < k'

/-- a terminal line `1 T _ 0 0` -/
def DddmpNode.IsTerm (n : DddmpNode) : Prop :=
  n.u = 1 ∧ n.info = .str "T" ∧ n.thn = 0 ∧ n.els = 0

/-- a non-terminal line: number > 1, label resolves to the level of a variable, regular
then-edge, both children listed at deeper levels -/
def DddmpNode.IsNode (f : DddmpFile) (i2p levels : List (Tok × Int)) (n : DddmpNode) : Prop :=
  1 < n.u ∧ n.info ≠ .str "T" ∧ 0 < n.thn ∧ n.els ≠ 0 ∧
    ∃ k, dictGet i2p n.info = some k ∧ k ∈ levels.map (·.2) ∧
      DddmpChildOK f i2p k n.thn ∧ DddmpChildOK f i2p k n.els

structure DddmpBodyWF (f : DddmpFile) (i2p levels : List (Tok × Int)) (nv : Int) : Prop where
  /-- `.nvars` is a count -/
  nvNonneg : 0 ≤ nv
  /-- `.nnodes` is the number of node lines -/
  nnodes : f.nnodes = some (f.nodes.length : Int)
  /-- node numbers are distinct -/
  idsNodup : (f.nodes.map (·.u)).Nodup
  /-- variable names are distinct (as they reach `BDD.vars`) -/
  namesNodup : (levels.map (·.1.show)).Nodup
  /-- no two variables on the same level -/
  levelsNodup : (levels.map (·.2)).Nodup
  /-- levels (permids) are in `0 .. nvars` -/
  levelRange : ∀ p ∈ levels, 0 ≤ p.2 ∧ p.2 ≤ nv
  /-- every line is a terminal line or a non-terminal line whose children come deeper -/
  line : ∀ n ∈ f.nodes, n.IsTerm ∨ n.IsNode f i2p levels

/-- a well-formed file: the header is accepted, and the node list is consistent with it;
the numbering of the nodes is arbitrary -/
def DddmpFile.WF (f : DddmpFile) : Prop :=
  ∃ i2p levels roots nv, dddmpHeader f = .ok (i2p, levels, roots) ∧ f.nvars = some nv ∧
    DddmpBodyWF f i2p levels nv

/-! ### unfolding `evalFile` on well-formed files -/

theorem find?_node_of_mem {l : List DddmpNode} (h : (l.map (·.u)).Nodup) {n : DddmpNode}
    (hn : n ∈ l) : l.find? (fun n' => decide (n'.u = n.u)) = some n := by
  induction l with
  | nil => cases hn
  | cons a r ih =>
    simp only [List.map_cons, List.nodup_cons] at h
    rcases List.mem_cons.mp hn with rfl | hr
    · simp
    · have : a.u ≠ n.u := by
        intro e
        exact h.1 (e ▸ List.mem_map.mpr ⟨n, hr, rfl⟩)
      simp [this, ih h.2 hr]

theorem find?_level_of_mem {l : List (Tok × Int)} (h : (l.map (·.2)).Nodup) {var : Tok} {k : Int}
    (hm : (var, k) ∈ l) : l.find? (fun p => decide (p.2 = k)) = some (var, k) := by
  induction l with
  | nil => cases hm
  | cons a r ih =>
    simp only [List.map_cons, List.nodup_cons] at h
    rcases List.mem_cons.mp hm with rfl | hr
    · simp
    · have : a.2 ≠ k := by
        intro e
        exact h.1 (e ▸ List.mem_map.mpr ⟨(var, k), hr, rfl⟩)
      simp [this, ih h.2 hr]

theorem dddmpVarOf_of_mem {i2p levels : List (Tok × Int)} (h : (levels.map (·.2)).Nodup)
    {info var : Tok} {k : Int} (hk : dictGet i2p info = some k) (hm : (var, k) ∈ levels) :
    dddmpVarOf i2p levels info = some var := by
  simp [dddmpVarOf, hk, find?_level_of_mem h hm]

theorem evalFileF_abs (i2p levels : List (Tok × Int)) (nodes : List DddmpNode) (α : String → Bool)
    (fuel : Nat) (x : Int) :
    evalFileF i2p levels nodes α fuel x =
      ((decide (x < 0)) ^^ evalFileF i2p levels nodes α fuel (x.natAbs : Int)) := by
  cases fuel with
  | zero =>
    have h0 : ¬ ((x.natAbs : Int) < 0) := by omega
    simp [evalFileF, h0]
  | succ fuel =>
    have h0 : ¬ ((x.natAbs : Int) < 0) := by omega
    rw [evalFileF, evalFileF]
    simp [h0]

section WFFile
variable {f : DddmpFile} {i2p levels : List (Tok × Int)} {nv : Int}

/-- every listed line has a level in `0 .. nvars+1`; `nvars+1` is the terminal's -/
theorem DddmpBodyWF.lineLevel (hw : DddmpBodyWF f i2p levels nv)
    (hT : dictGet i2p (.str "T") = some (nv + 1)) {n : DddmpNode} (hn : n ∈ f.nodes) :
    ∃ k, dictGet i2p n.info = some k ∧ 0 ≤ k ∧ k ≤ nv + 1 ∧ (n.info = .str "T" → k = nv + 1) := by
  have h0 := hw.nvNonneg
  rcases hw.line n hn with ht | hnode
  · exact ⟨nv + 1, by rw [ht.2.1]; exact hT, by omega, Int.le_refl _, fun _ => rfl⟩
  · obtain ⟨_, hne, _, _, k, hk, hkl, _, _⟩ := hnode
    obtain ⟨p, hp, rfl⟩ := List.mem_map.mp hkl
    have := hw.levelRange p hp
    exact ⟨p.2, hk, this.1, by omega, fun e => absurd e hne⟩

/-- enough fuel gives the same value -/
theorem DddmpBodyWF.evalFileF_stable (hw : DddmpBodyWF f i2p levels nv)
    (hT : dictGet i2p (.str "T") = some (nv + 1)) (α : String → Bool) :
    ∀ (fuel : Nat) (x : Int) (n : DddmpNode) (k : Int), n ∈ f.nodes → n.u = (x.natAbs : Int) →
      dictGet i2p n.info = some k → (nv + 1 - k).toNat + 1 ≤ fuel →
      evalFileF i2p levels f.nodes α fuel x = evalFileF i2p levels f.nodes α (fuel + 1) x := by
  intro fuel
  induction fuel with
  | zero => intro x n k _ _ _ h; omega
  | succ fuel ih =>
    intro x n k hn hu hk hf
    rw [evalFileF, evalFileF]
    have hfind : f.nodes.find? (fun n' => decide (n'.u = (x.natAbs : Int))) = some n := by
      rw [← hu]; exact find?_node_of_mem hw.idsNodup hn
    simp only [hfind]
    by_cases hti : n.info = .str "T"
    · simp [hti]
    · simp only [hti, if_false]
      rcases hw.line n hn with ht | hnode
      · exact absurd ht.2.1 hti
      · obtain ⟨_, _, _, _, k₁, hk₁, hkl, hc1, hc2⟩ := hnode
        rw [hk] at hk₁
        cases hk₁
        obtain ⟨p, hp, hpk⟩ := List.mem_map.mp hkl
        have hvar : dddmpVarOf i2p levels n.info = some p.1 :=
          dddmpVarOf_of_mem hw.levelsNodup hk (by rw [← hpk]; exact hp)
        simp only [hvar]
        have child : ∀ c, DddmpChildOK f i2p k c →
            evalFileF i2p levels f.nodes α fuel c = evalFileF i2p levels f.nodes α (fuel + 1) c := by
          intro c hc
          obtain ⟨n', hn', hu', k', hk', hlt⟩ := hc
          obtain ⟨k₂, hk₂, _, hle, _⟩ := hw.lineLevel hT hn'
          rw [hk'] at hk₂
          cases hk₂
          exact ih c n' k' hn' hu' hk' (by omega)
        rw [child _ hc1, child _ hc2]

/-- Shannon expansion of a non-terminal line at the fuel `evalFile` uses -/
theorem DddmpBodyWF.evalFileF_node (hw : DddmpBodyWF f i2p levels nv)
    (hT : dictGet i2p (.str "T") = some (nv + 1)) (α : String → Bool)
    {n : DddmpNode} (hn : n ∈ f.nodes) (hnode : n.IsNode f i2p levels)
    {var : Tok} {k : Int} (hk : dictGet i2p n.info = some k) (hv : (var, k) ∈ levels) :
    evalFileF i2p levels f.nodes α (nv + 2).toNat n.u =
      if α var.show then evalFileF i2p levels f.nodes α (nv + 2).toNat n.thn
      else evalFileF i2p levels f.nodes α (nv + 2).toNat n.els := by
  have h0 := hw.nvNonneg
  have hF : (nv + 2).toNat = (nv + 1).toNat + 1 := by omega
  obtain ⟨hu1, hti, _, _, k₁, hk₁, _, hc1, hc2⟩ := hnode
  rw [hk] at hk₁
  cases hk₁
  have hkr := hw.levelRange _ hv
  rw [hF, evalFileF]
  have hneg : ¬ (n.u < 0) := by omega
  have habs : (n.u.natAbs : Int) = n.u := by omega
  have hfind : f.nodes.find? (fun n' => decide (n'.u = (n.u.natAbs : Int))) = some n := by
    rw [habs]; exact find?_node_of_mem hw.idsNodup hn
  have hvar : dddmpVarOf i2p levels n.info = some var := dddmpVarOf_of_mem hw.levelsNodup hk hv
  simp only [hfind, hti, if_false, hvar, hneg, decide_false, Bool.false_xor]
  have child : ∀ c, DddmpChildOK f i2p k c →
      evalFileF i2p levels f.nodes α (nv + 1).toNat c =
        evalFileF i2p levels f.nodes α ((nv + 1).toNat + 1) c := by
    intro c hc
    obtain ⟨n', hn', hu', k', hk', hlt⟩ := hc
    obtain ⟨k₂, hk₂, _, hle, _⟩ := hw.lineLevel hT hn'
    rw [hk'] at hk₂
    cases hk₂
    simp only at hkr
    exact hw.evalFileF_stable hT α _ c n' k' hn' hu' hk' (by omega)
  rw [child _ hc1, child _ hc2]

/-- a terminal line is the constant true -/
theorem DddmpBodyWF.evalFileF_term (hw : DddmpBodyWF f i2p levels nv) (α : String → Bool)
    {n : DddmpNode} (hn : n ∈ f.nodes) (ht : n.IsTerm) :
    evalFileF i2p levels f.nodes α (nv + 2).toNat 1 = true := by
  have h0 := hw.nvNonneg
  have hF : (nv + 2).toNat = (nv + 1).toNat + 1 := by omega
  rw [hF, evalFileF]
  have hfind : f.nodes.find? (fun n' => decide (n'.u = 1)) = some n := by
    rw [← ht.1]; exact find?_node_of_mem hw.idsNodup hn
  simp [hfind, ht.2.1]

end WFFile

end DD
