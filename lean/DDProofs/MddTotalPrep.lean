/-
  DDProofs.MddTotalPrep — the first part of `bdd_to_mdd` returns normally: target order,
  `collect_garbage`, `reorder(bdd, order)`, zones, reverse edges, selection of the zone-entry
  nodes, `assert_consistent`.
-/
import DDProofs.MddConvFull
import DDProofs.SiftFinal
open Std

namespace DD

/-! ### reordering keeps "no unreferenced node" -/

theorem swapOKng (ext : Nat → Nat) :
    SwapOK SchedErr (fun m => ReorderInv ext m ∧ NoGarbage m) (ReorderRel ext) := by
  have S := swapOK ext
  refine ⟨S.refl, S.trans, fun m h => h.1.order, fun m h => S.roots m h.1, ?_⟩
  intro m i h hi
  refine OkOr.mono ?_ (swapBody_spec m ext h.1.inv h.1.order h.1.refExact h.1.off i hi)
  intro r m' ⟨hp, hsch⟩
  refine ⟨⟨⟨hp.inv, hp.order, hp.refExact, ?_, ?_⟩, hp.noZero h.2⟩,
    ⟨?_, hp.names, hp.exch.nvars, hp.exch.roots, hp.ctx, hp.lastLen, hsch⟩, hp.exch, hp.sizes⟩
  · rw [hp.ctx, hp.lastLen]; exact h.1.off
  · rw [hp.exch.roots]; exact h.1.rootsHeld
  · intro u hu a
    obtain ⟨h0, h1⟩ := hp.held u hu
    exact hp.denN _ h0 h1 a

theorem swapOKng0 (ext : Nat → Nat) :
    SwapOK NoErr (fun m => (ReorderInv ext m ∧ NoGarbage m) ∧ m.sched = []) (ReorderRel ext) := by
  have S := swapOK ext
  refine ⟨S.refl, S.trans, fun m h => h.1.1.order, fun m h => S.roots m h.1.1, ?_⟩
  intro m i h hi
  obtain ⟨r, m', hrun, hp, hs'⟩ :=
    swapBody_total m ext h.1.1.inv h.1.1.order h.1.1.refExact h.1.1.off i hi h.2
  rw [hrun]
  refine ⟨⟨⟨⟨hp.inv, hp.order, hp.refExact, ?_, ?_⟩, hp.noZero h.1.2⟩, hs'⟩,
    ⟨?_, hp.names, hp.exch.nvars, hp.exch.roots, hp.ctx, hp.lastLen, fun _ => hs'⟩, hp.exch, hp.sizes⟩
  · rw [hp.ctx, hp.lastLen]; exact h.1.1.off
  · rw [hp.exch.roots]; exact h.1.1.rootsHeld
  · intro u hu a
    obtain ⟨h0, h1⟩ := hp.held u hu
    exact hp.denN _ h0 h1 a

/-! ### the target order exists -/

theorem lastLookup_isSome_of_mem {κ β} [BEq κ] [LawfulBEq κ] (l : List (κ × β)) (k : κ)
    (h : k ∈ l.map (·.1)) : ∃ v, lastLookup k l = some v := by
  unfold lastLookup
  have : k ∈ l.reverse.map (·.1) := by rw [List.map_reverse]; exact List.mem_reverse.mpr h
  generalize l.reverse = l' at this
  induction l' with
  | nil => simp at this
  | cons p rest ih =>
    rw [List.lookup_cons]
    by_cases hk : k = p.1
    · exact ⟨p.2, by simp [hk]⟩
    · have hk' : (k == p.1) = false := by simpa using hk
      rw [hk']
      simp only [List.map_cons, List.mem_cons] at this
      rcases this with h | h
      · exact absurd h hk
      · exact ih h

theorem foldlM_order_total (levels : List (Nat × MVar)) : ∀ (js : List Nat) (init : List String),
    (∀ j ∈ js, ∃ v, lastLookup j levels = some v) →
    ∃ order, js.foldlM (fun (order : List String) j =>
      match lastLookup j levels with
      | none => Except.error Err.key
      | some var => Except.ok (order ++ var.bits)) init = .ok order := by
  intro js
  induction js with
  | nil => intro init _; exact ⟨init, rfl⟩
  | cons j js ih =>
    intro init h
    obtain ⟨v, hv⟩ := h j (by simp)
    rw [List.foldlM_cons, hv]
    exact ih (init ++ v.bits) (fun j' hj' => h j' (List.mem_cons_of_mem _ hj'))

theorem b2mOrder_total {t : Tbl} {dvars : List MVar} (h : DvarsOK t dvars) :
    ∃ order, b2mOrder dvars = .ok order := by
  unfold b2mOrder
  simp only
  have hml : (dedup (dvars.map (·.level))).length = dvars.length := by
    rw [dedup_of_nodup _ h.levels_nodup, List.length_map]
  rw [hml]
  apply foldlM_order_total
  intro j hj
  apply lastLookup_isSome_of_mem
  rw [List.map_map]
  have : j ∈ dvars.map (·.level) := h.levels.mem_iff.mpr hj
  simpa [Function.comp_def] using this

/-! ### zones -/

/-- a complete description of the integer variables: `DvarsOK`, distinct names (a `dict`), at least
one bit each (`bits[0]` is read), and `len = 2 ** len(bitnames)` (checked by `find_or_add`) -/
structure DvarsFull (t : Tbl) (dvars : List MVar) : Prop extends DvarsOK t dvars where
  names : (dvars.map (·.name)).Nodup
  nonempty : ∀ d ∈ dvars, d.bits ≠ []
  len : ∀ d ∈ dvars, d.len = 2 ^ d.bits.length

/-- what `b2mZones` returns: for every variable its entry, whose lower bound is the position of
its first listed bit -/
theorem b2mZones_total (bts : List (String × Nat)) : ∀ (dv : List MVar),
    (∀ d ∈ dv, d.bits ≠ []) → (∀ d ∈ dv, ∀ b ∈ d.bits, ∃ k, lastLookup b bts = some k) →
    ∃ zones, b2mZones bts dv = .ok zones ∧ zones.map (·.1) = dv.map (·.name) ∧
      ∀ d ∈ dv, ∃ lsb mn mx, d.bits.head? = some lsb ∧ lastLookup lsb bts = some mn ∧
        (d.name, mn, mx) ∈ zones := by
  intro dv
  induction dv with
  | nil => intro _ _; exact ⟨[], rfl, rfl, fun d hd => by cases hd⟩
  | cons d rest ih =>
    intro hne hlk
    obtain ⟨zs, hz, hnames, hall⟩ := ih (fun d' hd' => hne d' (List.mem_cons_of_mem _ hd'))
      (fun d' hd' => hlk d' (List.mem_cons_of_mem _ hd'))
    have hb := hne d (by simp)
    obtain ⟨lsb, hlsb⟩ : ∃ x, d.bits.head? = some x := by
      cases hbits : d.bits with
      | nil => exact absurd hbits hb
      | cons x xs => exact ⟨x, rfl⟩
    obtain ⟨msb, hmsb⟩ : ∃ x, d.bits.getLast? = some x := by
      cases hbits : d.bits with
      | nil => exact absurd hbits hb
      | cons x xs => exact ⟨(x :: xs).getLast (by simp), List.getLast?_eq_some_getLast _⟩
    have hlm : lsb ∈ d.bits := List.mem_of_mem_head? hlsb
    have hmm : msb ∈ d.bits := List.mem_of_getLast? hmsb
    obtain ⟨mn, hmn⟩ := hlk d (by simp) lsb hlm
    obtain ⟨mx, hmx⟩ := hlk d (by simp) msb hmm
    refine ⟨(d.name, mn, mx) :: zs, ?_, by simp [hnames], ?_⟩
    · unfold b2mZones
      rw [hlsb, hmsb]
      simp only
      rw [hmn, hmx]
      simp only
      rw [hz]
    · intro d' hd'
      rcases List.mem_cons.mp hd' with rfl | hd'
      · exact ⟨lsb, mn, mx, hlsb, hmn, by simp⟩
      · obtain ⟨a, b, c, h1, h2, h3⟩ := hall d' hd'
        exact ⟨a, b, c, h1, h2, List.mem_cons_of_mem _ h3⟩

/-! ### reverse edges -/

theorem b2mPredCheck_ok (t : Tbl) (hw : WF t) : b2mPredCheck t = true := by
  unfold b2mPredCheck
  rw [List.all_eq_true]
  intro x hx
  obtain ⟨u, n⟩ := x
  have hn : t.node? u = some n := TreeMap.mem_toList_iff_getElem?_eq_some.mp hx
  have a1 := (Tbl.mem_iff t n.lo).mpr (hw.lo_mem _ _ hn)
  have a2 := (Tbl.mem_iff t n.hi).mpr (hw.hi_mem _ _ hn)
  simp [a1, a2]

/-! ### `assert_consistent` -/

/-- every entry `(level, low, high) ↦ u` of `_pred` is the triple of the stored node `u`
(no stray entries; the same notion as `PredNodes` of DDProofs.DumpJson) -/
def PredExact (m : Mgr) : Prop :=
  ∀ (k : List Int) (u : Nat), m.pred[k]? = some u → ∃ n, m.tbl.succ[u]? = some n ∧ n.key = k

/-- `assert_consistent()` passes on a manager satisfying the invariant with exact counts whose
roots are nodes and whose unique table has no stray entries -/
theorem bddAssertConsistent_ok (m : Mgr) (ext : Nat → Nat) (hI : Inv m) (hR : RefExact m ext)
    (hr : ∀ r ∈ m.roots, m.tbl.Mem r) (hp : PredExact m) :
    bddAssertConsistent m = (.ok (), m) := by
  have hW := hI.wf.toWF
  unfold bddAssertConsistent
  simp only
  split
  · next h1 =>
    exfalso
    have : (m.roots.all fun r => m.tbl.mem r) = true := by
      rw [List.all_eq_true]
      intro r hr'
      exact (Tbl.mem_iff m.tbl r).mpr (hr r hr')
    rw [this] at h1
    simp at h1
  · split
    · next h2 =>
      exfalso
      simp only [Bool.not_eq_true', List.all_eq_false] at h2
      obtain ⟨x, hx, hfx⟩ := h2
      obtain ⟨k, u⟩ := x
      have hk : m.pred[k]? = some u := TreeMap.mem_toList_iff_getElem?_eq_some.mp hx
      obtain ⟨n, hn, hkey⟩ := hp k u hk
      apply hfx
      simp only [hn]
      simpa using hkey
    · split
      · rfl
      · next h3 =>
        exfalso
        apply h3
        rw [List.all_eq_true]
        intro x hx
        obtain ⟨u, n⟩ := x
        have hn : m.tbl.node? u = some n := TreeMap.mem_toList_iff_getElem?_eq_some.mp hx
        have a1 := (Tbl.mem_iff m.tbl n.lo).mpr (hW.lo_mem _ _ hn)
        have a2 := (Tbl.mem_iff m.tbl n.hi).mpr (hW.hi_mem _ _ hn)
        have a3 : n.lo ≠ 0 := mem_ne_zero hW (hW.lo_mem _ _ hn)
        have a4 := hW.hi_pos _ _ hn
        have a5 := Tbl.levelOf?_eq m.tbl n.lo (hW.lo_mem _ _ hn)
        have a6 := Tbl.levelOf?_eq m.tbl n.hi (hW.hi_mem _ _ hn)
        have a7 := (hI.pred n u).mpr hn
        have a8 : m.ref.contains u = true := by
          rw [TreeMap.contains_eq_isSome_getElem?]
          exact (hR.dom u).mpr (Or.inr (by rw [hn]; rfl))
        simp only [a1, a2, a4, a5, a6, a7, a8, hW.lo_lt _ _ hn, hW.hi_lt _ _ hn]
        simp [a3]

/-! ### selection of the zone-entry nodes -/

theorem foldl_min_le : ∀ (ls : List Nat) (l0 x : Nat), x ∈ l0 :: ls → ls.foldl min l0 ≤ x := by
  intro ls
  induction ls with
  | nil => intro l0 x hx; simp at hx; subst hx; exact Nat.le_refl _
  | cons y ys ih =>
    intro l0 x hx
    simp only [List.foldl_cons]
    rcases List.mem_cons.mp hx with rfl | hx
    · have := ih (min x y) (min x y) (by simp)
      exact Nat.le_trans this (Nat.min_le_left _ _)
    · rcases List.mem_cons.mp hx with rfl | hx
      · have := ih (min l0 x) (min l0 x) (by simp)
        exact Nat.le_trans this (Nat.min_le_right _ _)
      · exact ih (min l0 y) x (List.mem_cons_of_mem _ hx)

theorem bddPreds_mem (t : Tbl) (u k : Nat) (n : Nd) (hn : t.node? k = some n)
    (he : n.lo.natAbs = u ∨ n.hi.natAbs = u) : k ∈ bddPreds t u := by
  rw [bddPreds_eq]
  simp only [List.mem_map, List.mem_filter, decide_eq_true_eq]
  exact ⟨(k, n), ⟨TreeMap.mem_toList_iff_getElem?_eq_some.mpr hn, he⟩, rfl⟩

/-- the entries of `zones` as the selection uses them: for every variable, the lower bound of its
zone is the level of one of its bits -/
def ZonesOK (dvars : List MVar) (t : Tbl) (zones : List (String × Nat × Nat)) : Prop :=
  ∀ d ∈ dvars, ∃ lsb mx, lsb ∈ d.bits ∧ lastLookup d.name zones = some (lvlOf t lsb, mx)

/-- nodes left out: every predecessor lies in the node's own zone -/
def RmOK (dvars : List MVar) (t : Tbl) (rm : List Nat) : Prop :=
  ∀ u ∈ rm, ∀ n, t.node? u = some n → ∀ k nk, t.node? k = some nk →
    (nk.lo.natAbs = u ∨ nk.hi.natAbs = u) → zoneLevel dvars t n.lvl ≤ zoneLevel dvars t nk.lvl

theorem b2mRmOne_total (dvars : List MVar) (m : Mgr) (ext : Nat → Nat) (hI : Inv m)
    (hR : RefExact m ext) (hng : NoGarbage m) (hz : ZoneOK dvars m.tbl)
    (zones : List (String × Nat × Nat)) (hzo : ZonesOK dvars m.tbl zones) (u : Nat)
    (hu : u = 1 ∨ (m.tbl.node? u).isSome = true) :
    ∃ b, b2mRmOne m (b2mBitToVar dvars) zones u = .ok b ∧
      (b = true → ∀ n, m.tbl.node? u = some n → ∀ k nk, m.tbl.node? k = some nk →
        (nk.lo.natAbs = u ∨ nk.hi.natAbs = u) →
        zoneLevel dvars m.tbl n.lvl ≤ zoneLevel dvars m.tbl nk.lvl) := by
  have hW := hI.wf.toWF
  have hmem : m.tbl.Mem (u : Int) := by
    rcases hu with h | h
    · exact Or.inl (by simpa using h)
    · exact Or.inr (by simpa using h)
  have hrc := hR.get hmem
  simp only [Int.natAbs_natCast] at hrc
  have hple := bddPreds_le_indeg m.tbl u
  generalize hcdef : indeg m.tbl u + ext u + (if u = 1 then 1 else 0) = c at hrc
  unfold b2mRmOne
  simp only
  rw [hrc]
  simp only
  by_cases hgt : c > (bddPreds m.tbl u).length
  · rw [if_pos hgt]
    exact ⟨false, rfl, fun h => by cases h⟩
  · rw [if_neg hgt]
    -- not the terminal: its count exceeds the in-degree
    have hu1 : u ≠ 1 := by
      intro e; subst e; simp at hcdef; omega
    have hns : (m.tbl.node? u).isSome = true := by
      rcases hu with h | h
      · exact absurd h hu1
      · exact h
    obtain ⟨n, hn⟩ := Option.isSome_iff_exists.mp hns
    have hu1' : ((u : Nat) : Int).natAbs ≠ 1 := by simpa using hu1
    have hnode : m.tbl.node? ((u : Nat) : Int).natAbs = some n := by simpa using hn
    rw [Tbl.levelOf?_eq m.tbl (u : Int) hmem, levelOf_node m.tbl (u : Int) n hu1' hnode]
    simp only
    obtain ⟨bit, d, hbit, hdl, hdm, hbd⟩ := hz.owner n.lvl (hW.lvl_lt _ _ hn)
    rw [hbit]
    simp only
    rw [hdl]
    simp only
    obtain ⟨lsb, mx, hlsb, hzl⟩ := hzo d hdm
    rw [hzl]
    simp only
    -- the predecessors: at least one (the count is not zero), all of them nodes
    have hrc0 : c ≠ 0 := by
      intro e
      exact hng u (by rw [hrc, e])
    have hpne : bddPreds m.tbl u ≠ [] := by
      intro e; rw [e] at hgt; simp at hgt; omega
    have hfm : ∀ k ∈ bddPreds m.tbl u, ∃ nk, m.tbl.succ[k]? = some nk ∧
        (nk.lo.natAbs = u ∨ nk.hi.natAbs = u) := fun k hk => mem_bddPreds m.tbl u k hk
    cases hpl : (bddPreds m.tbl u).filterMap fun v => (m.tbl.succ[v]?).map (·.lvl) with
    | nil =>
      exfalso
      cases hp : bddPreds m.tbl u with
      | nil => exact hpne hp
      | cons k ks =>
        obtain ⟨nk, hnk, _⟩ := hfm k (by rw [hp]; simp)
        rw [hp, List.filterMap_cons, hnk] at hpl
        simp at hpl
    | cons l0 ls =>
      simp only
      refine ⟨_, rfl, ?_⟩
      intro hb n' hn' k nk hnk he
      rw [hn] at hn'
      cases hn'
      have hnot : ¬ (ls.foldl min l0 < lvlOf m.tbl lsb) := by simpa using hb
      have hkm : nk.lvl ∈ l0 :: ls := by
        rw [← hpl, List.mem_filterMap]
        exact ⟨k, bddPreds_mem m.tbl u k nk hnk he, by
          have : m.tbl.succ[k]? = some nk := hnk
          rw [this]; rfl⟩
      have hle := foldl_min_le ls l0 nk.lvl hkm
      have hge : lvlOf m.tbl lsb ≤ nk.lvl := by omega
      -- the level of `lsb` is in the zone of `d`, as is the level of `u`
      obtain ⟨ll, hll⟩ := (vars_contains_iff m.tbl lsb).mp (hz.decl d hdm lsb hlsb)
      rw [lvlOf_eq hll] at hge
      have hzl1 : zoneLevel dvars m.tbl ll = d.level := by
        unfold zoneLevel
        rw [(hz.order.inv lsb ll).mp hll]
        simp only
        rw [hz.uniq d hdm lsb hlsb]
      have hzn : zoneLevel dvars m.tbl n.lvl = d.level := by
        unfold zoneLevel; rw [hbit]; simp only; rw [hdl]
      have := hz.mono ll nk.lvl hge (hW.lvl_lt _ _ hnk)
      omega

theorem b2mRm_total (dvars : List MVar) (m : Mgr) (ext : Nat → Nat) (hI : Inv m)
    (hR : RefExact m ext) (hng : NoGarbage m) (hz : ZoneOK dvars m.tbl)
    (zones : List (String × Nat × Nat)) (hzo : ZonesOK dvars m.tbl zones) :
    ∀ (us : List Nat), (∀ u ∈ us, u = 1 ∨ (m.tbl.node? u).isSome = true) →
      ∃ rm, b2mRm m (b2mBitToVar dvars) zones us = .ok rm ∧ RmOK dvars m.tbl rm := by
  intro us
  induction us with
  | nil => intro _; exact ⟨[], rfl, fun u hu => by cases hu⟩
  | cons u rest ih =>
    intro h
    obtain ⟨b, hb, hchar⟩ := b2mRmOne_total dvars m ext hI hR hng hz zones hzo u (h u (by simp))
    obtain ⟨r, hr, hok⟩ := ih (fun u' hu' => h u' (List.mem_cons_of_mem _ hu'))
    unfold b2mRm
    rw [hb]
    simp only
    rw [hr]
    simp only
    refine ⟨_, rfl, ?_⟩
    intro u' hu'
    by_cases hbt : b = true
    · subst hbt
      simp only [if_true] at hu'
      rcases List.mem_cons.mp hu' with rfl | hu'
      · exact hchar rfl
      · exact hok u' hu'
    · have : b = false := by
        cases b
        · rfl
        · exact absurd rfl hbt
      subst this
      simp only [Bool.false_eq_true, if_false] at hu'
      exact hok u' hu'

/-! ### the preparation as a whole -/

theorem mem_order_of_bit {mb : Mgr} {dvars : List MVar} {order : List String} {sorted : List MVar}
    (hO : OrderFacts mb dvars order sorted) {d : MVar} (hd : d ∈ dvars) {b : String} (hb : b ∈ d.bits) :
    b ∈ order := by
  rw [hO.is_.eq, List.mem_flatMap]
  exact ⟨d, hO.is_.perm.mem_iff.mpr hd, hb⟩

/-- the preparation, for any instance of the swap contract that carries the reordering invariant
and "no unreferenced node": it returns normally (or with the exception the contract allows) -/
theorem b2mPrepare_gen (ext : Nat → Nat) (mb : Mgr) (h : ReorderInv ext mb) (dvars : List MVar)
    (hd : DvarsFull mb.tbl dvars) {E : Err → Prop} {P : Mgr → Prop}
    (S : SwapOK E P (ReorderRel ext))
    (hP : ∀ m, P m → ReorderInv ext m ∧ NoGarbage m)
    (hP1 : ∀ m1, collectGarbage none mb = (.ok (), m1) → ReorderInv ext m1 → NoGarbage m1 →
      m1.sched = mb.sched → P m1) :
    OkOr E (fun p m2 => PrepOK ext dvars mb p m2 ∧ NoGarbage m2 ∧ RmOK dvars m2.tbl p.rm ∧ P m2)
      (b2mPrepare dvars mb) := by
  have hdo := hd.toDvarsOK
  unfold b2mPrepare
  obtain ⟨order, hord⟩ := b2mOrder_total hdo
  rw [hord]
  simp only
  obtain ⟨sorted, hO⟩ := orderFacts hdo order hord
  obtain ⟨m1, hgc, hG⟩ := collectGarbage_spec mb ext h.inv h.refExact
  rw [hgc]
  simp only
  obtain ⟨hI1, hng1, hreq, hnv1, hv1, hs1, hheld1⟩ := prep_gc ext mb h dvars order sorted hO m1 hG
  have hsort := sortToOrder_exact S (b2mOrderDict order) m1 (hP1 m1 hgc hI1 hng1 hs1) hreq
  have hre : reorder (some (b2mOrderDict order)) m1 = sortToOrder (b2mOrderDict order) m1 := rfl
  rw [hre]
  cases hres : sortToOrder (b2mOrderDict order) m1 with
  | mk r m2 =>
    rw [hres] at hsort
    cases r with
    | error e => exact hsort
    | ok r0 =>
      obtain ⟨hPm2, hR, hnv2, hpos⟩ := hsort
      obtain ⟨hI2, hng2⟩ := hP m2 hPm2
      obtain ⟨hz, hnames, hposk⟩ :=
        prep_zone ext mb dvars hdo order sorted hO m1 m2 hv1 hnv1 hI2 hR hnv2 hpos
      simp only
      -- zones
      have hlk : ∀ d ∈ dvars, ∀ b ∈ d.bits, ∃ k, lastLookup b (b2mBitToSort order) = some k := by
        intro d hdm b hb
        obtain ⟨k, hk, hkb⟩ := List.getElem_of_mem (mem_order_of_bit hO hdm hb)
        exact ⟨k, by rw [← hkb]; exact bitToSort_lookup order hO.nd k hk⟩
      obtain ⟨zones, hzs, hznames, hzall⟩ := b2mZones_total (b2mBitToSort order) dvars hd.nonempty hlk
      rw [hzs]
      simp only
      have hzo : ZonesOK dvars m2.tbl zones := by
        intro d hdm
        obtain ⟨lsb, mn, mx, hlsb, hmn, hmem⟩ := hzall d hdm
        have hlm : lsb ∈ d.bits := List.mem_of_mem_head? hlsb
        refine ⟨lsb, mx, hlm, ?_⟩
        obtain ⟨k, hk, hkb⟩ := List.getElem_of_mem (mem_order_of_bit hO hdm hlm)
        have h1 := bitToSort_lookup order hO.nd k hk
        rw [hkb, hmn] at h1
        have hmk : mn = k := Option.some.inj h1
        have hlv : lvlOf m2.tbl lsb = k := by
          rw [← hkb]; exact lvlOf_eq (hposk k hk).1
        rw [hlv, ← hmk]
        exact lastLookup_of_mem_nodup zones (by rw [hznames]; exact hd.names) d.name (mn, mx) hmem
      -- reverse edges
      have hW2 := hI2.inv.wf.toWF
      rw [b2mPredCheck_ok m2.tbl hW2]
      simp only [Bool.not_true, Bool.false_eq_true, if_false]
      -- selection
      obtain ⟨rm, hrm, hrmok⟩ := b2mRm_total dvars m2 ext hI2.inv hI2.refExact hng2 hz zones hzo
        (1 :: m2.tbl.succ.keys) (by
          intro u hu
          rcases List.mem_cons.mp hu with rfl | hu
          · exact Or.inl rfl
          · right
            rw [TreeMap.mem_keys, TreeMap.mem_iff_contains,
              TreeMap.contains_eq_isSome_getElem?] at hu
            exact hu)
      rw [hrm]
      refine ⟨⟨rfl, rfl, hI2, hz, ?_, hnames⟩, hng2, hrmok, hPm2⟩
      intro u hu
      refine ⟨hI2.held_mem hu, ?_⟩
      intro a
      rw [hR.held u hu a, hheld1 u hu a]

end DD
