/-
  DDProofs.LexNeeds — where adjacent token texts need a blank: `needsBlank` in terms of the two
  tokens (`needsBlank_spec`), and the converse of the round trip: where it holds, gluing the two
  texts does not give the two tokens (`needsBlank_necessary`).
-/
import DDProofs.LexComments
namespace DD

/-- the texts `a b` of two adjacent tokens need a blank (or comment) between them -/
def needsBlank (a b : String) : Bool :=
  match b.toList.head? with
  | some y => clash a.toList y
  | none => false

def Tok.isWord : Tok → Bool
  | .name _ | .ite | .tt | .ff => true
  | _ => false

def Tok.isNum : Tok → Bool
  | .number _ => true
  | _ => false

/-- the pairs of operator / delimiter spellings that need a blank between them -/
def clashPairs : List (String × String) :=
  [("&", "&&"), ("&", "&"), ("/", "\\E"), ("/", "\\A"), ("/", "\\/"), ("/", "\\S"), ("|", "||"), ("|", "|")]

theorem clashPairs_eq :
    (Gen.spellings.flatMap fun r1 => Gen.spellings.filterMap fun r2 =>
      if needsBlank r1.1 r2.1 then some (r1.1, r2.1) else none) = clashPairs := by decide

theorem rows_first_notword :
    (Gen.spellings.all fun r => match r.1.toList with
      | c :: _ => !isNameChar c && !isDigitU c | [] => false) = true := by decide

theorem ext_notword :
    (Gen.spellings.all fun r => (extChars r.1.toList).all fun y => !isNameChar y && !isDigitU y) = true := by decide

theorem clashPairs_second :
    (clashPairs.all fun p => match p.2.toList with
      | y :: _ => !isNameChar y && !isDigitU y | [] => true) = true := by decide

theorem mem_clashPairs {r1 r2 : String × String × String} (h1 : r1 ∈ Gen.spellings) (h2 : r2 ∈ Gen.spellings) :
    needsBlank r1.1 r2.1 = clashPairs.contains (r1.1, r2.1) := by
  have : ∀ r1 ∈ Gen.spellings, ∀ r2 ∈ Gen.spellings,
      needsBlank r1.1 r2.1 = clashPairs.contains (r1.1, r2.1) := by decide
  exact this r1 h1 r2 h2

/-- the three kinds of token texts -/
inductive TextKind (t : Tok) (a : String) : Prop
  | word (h : t.isWord = true) (hw : wordOk a.toList = true)
  | num (h : t.isNum = true) (hd : digitsOk a.toList = true)
  | row (h1 : t.isWord = false) (h2 : t.isNum = false) (r : String × String × String) (hr : r ∈ Gen.spellings) (e : r.1 = a)
      (ht : tokOfRow r.2.1 r.2.2 = some t)

theorem textKind (t : Tok) (a : String) (hok : t.lexOk = true) (ha : a ∈ t.spellings) : TextKind t a := by
  have hrow : ∀ t', t'.isWord = false → t'.isNum = false → a ∈ rowSpellings t' → TextKind t' a := by
    intro t' h1 h2 h
    obtain ⟨r, hr, ht, e⟩ := mem_rowSpellings h
    exact .row h1 h2 r hr e ht
  cases t with
  | name s =>
    simp only [Tok.spellings, List.mem_singleton] at ha
    subst ha
    simp only [Tok.lexOk, Bool.and_eq_true] at hok
    exact .word rfl hok.1
  | number d =>
    simp only [Tok.spellings, List.mem_singleton] at ha
    subst ha
    exact .num rfl hok
  | bad => simp [Tok.lexOk] at hok
  | ite => exact .word rfl (mem_kwSpellings ha).1
  | tt => exact .word rfl (mem_kwSpellings ha).1
  | ff => exact .word rfl (mem_kwSpellings ha).1
  | op o => exact hrow _ rfl rfl ha
  | lparen => exact hrow _ rfl rfl ha
  | rparen => exact hrow _ rfl rfl ha
  | comma => exact hrow _ rfl rfl ha
  | colon => exact hrow _ rfl rfl ha
  | div => exact hrow _ rfl rfl ha
  | «at» => exact hrow _ rfl rfl ha
  | not => exact hrow _ rfl rfl ha
  | forall_ => exact hrow _ rfl rfl ha
  | exists_ => exact hrow _ rfl rfl ha
  | rename => exact hrow _ rfl rfl ha

/-- the first character of a number is an ASCII digit (so a NAME before it would go on) -/
def startsAscii (b : String) : Bool :=
  match b.toList.head? with
  | some y => isNameChar y
  | none => false

/-- WHERE A BLANK IS NEEDED, in terms of the two tokens: after a word (name, `ite`, `TRUE`,
`FALSE`) before a word or a number that starts with an ASCII digit; after a number before a
number; and between the operator spellings of `clashPairs` — nowhere else (a number may be
followed directly by a name, every operator by a name or number, `!` by `=`, …) -/
theorem needsBlank_spec (t1 t2 : Tok) (a b : String) (h1 : t1.lexOk = true) (h2 : t2.lexOk = true)
    (ha : a ∈ t1.spellings) (hb : b ∈ t2.spellings) :
    needsBlank a b =
      if t1.isWord then (t2.isWord || (t2.isNum && startsAscii b))
      else if t1.isNum then t2.isNum
      else clashPairs.contains (a, b) := by
  have hbne := spelling_ne_nil t2 b h2 hb
  obtain ⟨y, ys, hy⟩ : ∃ y ys, b.toList = y :: ys := by
    cases hb' : b.toList with
    | nil => exact absurd hb' hbne
    | cons y ys => exact ⟨y, ys, rfl⟩
  -- the first character of `b`
  have hyk : (t2.isWord = true → isNameStart y = true) ∧ (t2.isNum = true → isDigitU y = true) ∧
      (t2.isWord = false → t2.isNum = false → isNameChar y = false ∧ isDigitU y = false) := by
    rcases textKind t2 b h2 hb with ⟨hw, hwo⟩ | ⟨hn, hd⟩ | ⟨hw, hn, r, hr, e, _⟩
    · refine ⟨fun _ => ?_, fun h => ?_, fun h => ?_⟩
      · rw [hy] at hwo; simp only [wordOk, Bool.and_eq_true] at hwo; exact hwo.1
      · cases t2 <;> simp [Tok.isWord, Tok.isNum] at hw h
      · rw [hw] at h; cases h
    · refine ⟨fun h => ?_, fun _ => ?_, fun _ h => ?_⟩
      · cases t2 <;> simp [Tok.isWord, Tok.isNum] at hn h
      · rw [hy] at hd
        simp only [digitsOk, List.isEmpty_cons, Bool.not_false, Bool.true_and, List.all_eq_true] at hd
        exact hd y (by simp)
      · rw [hn] at h; cases h
    · refine ⟨(fun h => by rw [hw] at h; cases h), (fun h => by rw [hn] at h; cases h), fun _ _ => ?_⟩
      have := List.all_eq_true.mp rows_first_notword r hr
      rw [e, hy] at this
      simpa using this
  rcases textKind t1 a h1 ha with ⟨hw, hwo⟩ | ⟨hn, hd⟩ | ⟨hw, hn, r, hr, e, _⟩
  · -- a word: the NAME goes on over name characters
    cases haw : a.toList with
    | nil => rw [haw] at hwo; simp [wordOk] at hwo
    | cons c cs =>
      rw [haw] at hwo
      simp only [wordOk, Bool.and_eq_true] at hwo
      simp only [needsBlank, hy, List.head?_cons, haw, clash, hwo.1, if_true, hw]
      cases hw2 : t2.isWord
      · cases hn2 : t2.isNum
        · simp [(hyk.2.2 hw2 hn2).1]
        · simp [startsAscii, hy]
      · simp [nameStart_nameChar (hyk.1 hw2)]
  · -- a number: the NUMBER goes on over digits
    have hw1 : t1.isWord = false := by cases t1 <;> simp [Tok.isWord, Tok.isNum] at hn ⊢
    cases had : a.toList with
    | nil => rw [had] at hd; simp [digitsOk] at hd
    | cons c cs =>
      rw [had] at hd
      simp only [digitsOk, List.isEmpty_cons, Bool.not_false, Bool.true_and, List.all_eq_true] at hd
      have hc := hd c (by simp)
      simp only [needsBlank, hy, List.head?_cons, had, clash, digit_not_nameStart hc, hc, Bool.false_eq_true,
        if_false, if_true, hw1, hn]
      cases hn2 : t2.isNum
      · cases hw2 : t2.isWord
        · exact (hyk.2.2 hw2 hn2).2
        · cases hdy : isDigitU y with
          | false => rfl
          | true => have := digit_not_nameStart hdy; rw [hyk.1 hw2] at this; cases this
      · exact hyk.2.1 hn2
  · -- an operator or delimiter
    simp only [hw, hn, Bool.false_eq_true, if_false]
    rcases textKind t2 b h2 hb with ⟨hw2, _⟩ | ⟨hn2, _⟩ | ⟨_, _, r2, hr2, e2, _⟩
    · -- before a word: never
      have hnc := nameStart_nameChar (hyk.1 hw2)
      have hcp : clashPairs.contains (a, b) = false := by
        cases hc : clashPairs.contains (a, b) with
        | false => rfl
        | true =>
          simp only [List.contains_eq_mem, decide_eq_true_eq] at hc
          have := List.all_eq_true.mp clashPairs_second _ hc
          simp only [hy, Bool.and_eq_true, Bool.not_eq_true'] at this
          rw [hnc] at this; cases this.1
      rw [hcp, ← e]
      simp only [needsBlank, hy, List.head?_cons, clash_row hr]
      have hx := List.all_eq_true.mp (List.all_eq_true.mp ext_notword r hr)
      cases hm : (extChars r.1.toList).contains y with
      | true =>
        simp only [List.contains_eq_mem, decide_eq_true_eq] at hm
        have := hx y hm
        simp [hnc] at this
      | false =>
        have : (y == '*') = false := by
          simp only [beq_eq_false_iff_ne, ne_eq]; rintro rfl; exact absurd hnc (by decide)
        simp [this]
    · -- before a number: never
      have hdy := hyk.2.1 hn2
      have hcp : clashPairs.contains (a, b) = false := by
        cases hc : clashPairs.contains (a, b) with
        | false => rfl
        | true =>
          simp only [List.contains_eq_mem, decide_eq_true_eq] at hc
          have := List.all_eq_true.mp clashPairs_second _ hc
          simp only [hy, Bool.and_eq_true, Bool.not_eq_true'] at this
          rw [hdy] at this; cases this.2
      rw [hcp, ← e]
      simp only [needsBlank, hy, List.head?_cons, clash_row hr]
      have hx := List.all_eq_true.mp (List.all_eq_true.mp ext_notword r hr)
      cases hm : (extChars r.1.toList).contains y with
      | true =>
        simp only [List.contains_eq_mem, decide_eq_true_eq] at hm
        have := hx y hm
        simp [hdy] at this
      | false =>
        have : (y == '*') = false := by
          simp only [beq_eq_false_iff_ne, ne_eq]; rintro rfl; exact absurd hdy (by decide)
        simp [this]
    · rw [← e, ← e2]
      exact mem_clashPairs hr hr2


/-! ### the blank is needed there -/

theorem tokenizeF_nil' (f : Nat) : tokenizeF (f+1) [] = [] := by simp [tokenizeF]

theorem tokenize_word (w : String) (hw : wordOk w.toList = true) : tokenize w = [nameTok w] := by
  rw [tokenize_toList w (w.toList.length + 1 + 1) (by omega)]
  have := step_wordG w.toList hw (w.toList.length + 1) [] trivial
  rw [List.append_nil] at this
  rw [this, tokenizeF_nil', String.ofList_toList]

theorem tokenize_digits (d : String) (hd : digitsOk d.toList = true) : tokenize d = [.number d] := by
  rw [tokenize_toList d (d.toList.length + 1 + 1) (by omega)]
  have := step_numberG d.toList hd (d.toList.length + 1) [] trivial
  rw [List.append_nil] at this
  rw [this, tokenizeF_nil', String.ofList_toList]

/-- the two pairs where the glued text happens to give the same TOKENS by another split
(`&&&` is `&&`,`&`): the blank changes nothing there -/
def coincide : List (String × String) := [("&", "&&"), ("|", "||")]

theorem coincide_tokens : tokenize "&&&" = [.op .and, .op .and] ∧ tokenize "|||" = [.op .or, .op .or] := by
  decide

theorem clash_rows_differ :
    (Gen.spellings.all fun r1 => Gen.spellings.all fun r2 =>
      !needsBlank r1.1 r2.1 || coincide.contains (r1.1, r2.1) ||
      (match tokOfRow r1.2.1 r1.2.2, tokOfRow r2.2.1 r2.2.2 with
        | some t1, some t2 => tokenize (r1.1 ++ r2.1) != [t1, t2]
        | _, _ => true)) = true := by decide

theorem dropWhile_stops (p : Char → Bool) (l : List Char) : stopsRun p (l.dropWhile p) := by
  induction l with
  | nil => trivial
  | cons x l ih =>
    simp only [List.dropWhile]
    split
    · exact ih
    · rename_i h; simpa [stopsRun] using h

/-- THE BLANK IS NEEDED: where `needsBlank` holds (the two coincidences apart), gluing the two
texts does not give the two tokens -/
theorem needsBlank_necessary (t1 t2 : Tok) (a b : String) (h1 : t1.lexOk = true) (h2 : t2.lexOk = true)
    (ha : a ∈ t1.spellings) (hb : b ∈ t2.spellings) (hn : needsBlank a b = true)
    (hex : (a, b) ∉ coincide) : tokenize (a ++ b) ≠ [t1, t2] := by
  rw [needsBlank_spec t1 t2 a b h1 h2 ha hb] at hn
  rcases textKind t1 a h1 ha with ⟨hw, hwo⟩ | ⟨hnum, hd⟩ | ⟨hw, hnum, r, hr, e, ht⟩
  · simp only [hw, if_true, Bool.or_eq_true, Bool.and_eq_true] at hn
    obtain ⟨c, cs, hac⟩ : ∃ c cs, a.toList = c :: cs := by
      cases h : a.toList with
      | nil => rw [h] at hwo; simp [wordOk] at hwo
      | cons c cs => exact ⟨c, cs, rfl⟩
    rw [hac] at hwo
    simp only [wordOk, Bool.and_eq_true, List.all_eq_true] at hwo
    rcases hn with hw2 | ⟨hn2, hasc⟩
    · -- word, word: one NAME
      rcases textKind t2 b h2 hb with ⟨_, hwo2⟩ | ⟨hn2, _⟩ | ⟨hw2', _, _, _, _, _⟩
      · have hab : wordOk (a ++ b).toList = true := by
          cases hb' : b.toList with
          | nil => rw [hb'] at hwo2; simp [wordOk] at hwo2
          | cons y ys =>
            rw [hb'] at hwo2
            simp only [wordOk, Bool.and_eq_true, List.all_eq_true] at hwo2
            simp only [String.toList_append, hac, hb', List.cons_append, wordOk, Bool.and_eq_true,
              List.all_eq_true, List.mem_append, List.mem_cons]
            refine ⟨hwo.1, fun x hx => ?_⟩
            rcases hx with hx | rfl | hx
            · exact hwo.2 x hx
            · exact nameStart_nameChar hwo2.1
            · exact hwo2.2 x hx
        rw [tokenize_word _ hab]
        simp
      · cases t2 <;> simp [Tok.isWord, Tok.isNum] at hw2 hn2
      · rw [hw2] at hw2'; cases hw2'
    · -- word, number that starts with an ASCII digit: the NAME swallows digits
      obtain ⟨d, rfl⟩ : ∃ d, t2 = .number d := by cases t2 <;> simp [Tok.isNum] at hn2; exact ⟨_, rfl⟩
      simp only [Tok.spellings, List.mem_singleton] at hb
      subst hb
      simp only [Tok.lexOk] at h2
      have hdig : ∀ x ∈ b.toList, isDigitU x = true := by
        simp only [digitsOk, Bool.and_eq_true, List.all_eq_true] at h2; exact h2.2
      let b1 := b.toList.takeWhile isNameChar
      let b2 := b.toList.dropWhile isNameChar
      have hb12 : b.toList = b1 ++ b2 := (List.takeWhile_append_dropWhile).symm
      have hb1 : b1 ≠ [] := by
        cases hb' : b.toList with
        | nil => simp [startsAscii, hb'] at hasc
        | cons y ys =>
          simp only [startsAscii, hb', List.head?_cons] at hasc
          simp [b1, hb', hasc]
      have hw1 : wordOk (a.toList ++ b1) = true := by
        simp only [hac, List.cons_append, wordOk, Bool.and_eq_true, List.all_eq_true, List.mem_append]
        refine ⟨hwo.1, fun x hx => ?_⟩
        rcases hx with hx | hx
        · exact hwo.2 x hx
        · exact List.all_eq_true.mp (List.all_takeWhile (l := b.toList) (p := isNameChar)) x hx
      have e : (a ++ b).toList = (a.toList ++ b1) ++ b2 := by
        rw [String.toList_append, hb12, List.append_assoc]
      obtain ⟨N, hN⟩ : ∃ N, N = (a ++ b).toList.length := ⟨_, rfl⟩
      rw [tokenize_toList _ (N + 1 + 1) (by omega), e,
        step_wordG _ hw1 _ b2 (dropWhile_stops _ _)]
      cases hb2 : b2 with
      | nil => rw [tokenizeF_nil']; simp
      | cons z zs =>
        have hd2 : digitsOk b2 = true := by
          simp only [digitsOk, hb2, List.isEmpty_cons, Bool.not_false, Bool.true_and, List.all_eq_true]
          intro x hx
          exact hdig x (by rw [hb12, hb2]; simp [hx])
        have := step_numberG b2 hd2 N [] trivial
        rw [List.append_nil] at this
        rw [← hb2, this]
        intro hcon
        simp only [List.cons.injEq, Tok.number.injEq] at hcon
        have : b2 = b.toList := by rw [← hcon.2.1, String.toList_ofList]
        have hl : b.toList.length = b1.length + b2.length := by
          have := congrArg List.length hb12
          simpa using this
        have : 0 < b1.length := List.length_pos_iff.mpr hb1
        rw [‹b2 = b.toList›] at hl
        omega
  · -- number, number: one NUMBER
    have hw1 : t1.isWord = false := by cases t1 <;> simp [Tok.isWord, Tok.isNum] at hnum ⊢
    simp only [hw1, hnum, Bool.false_eq_true, if_false, if_true] at hn
    obtain ⟨d, rfl⟩ : ∃ d, t2 = .number d := by cases t2 <;> simp [Tok.isNum] at hn; exact ⟨_, rfl⟩
    simp only [Tok.spellings, List.mem_singleton] at hb
    subst hb
    simp only [Tok.lexOk] at h2
    have hab : digitsOk (a ++ b).toList = true := by
      simp only [digitsOk, Bool.and_eq_true, Bool.not_eq_true', List.isEmpty_eq_false_iff, List.all_eq_true,
        String.toList_append, List.mem_append] at hd h2 ⊢
      refine ⟨?_, fun x hx => hx.elim (hd.2 x) (h2.2 x)⟩
      intro h
      exact hd.1 (List.append_eq_nil_iff.mp h).1
    rw [tokenize_digits _ hab]
    simp
  · -- operators
    simp only [hw, hnum, Bool.false_eq_true, if_false] at hn
    rcases textKind t2 b h2 hb with ⟨hw2, hwo2⟩ | ⟨hn2, hd2⟩ | ⟨_, _, r2, hr2, e2, ht2⟩
    · exfalso
      have := List.all_eq_true.mp clashPairs_second _ (by simpa using hn)
      cases hb' : b.toList with
      | nil => rw [hb'] at hwo2; simp [wordOk] at hwo2
      | cons y ys =>
        rw [hb'] at hwo2
        simp only [wordOk, Bool.and_eq_true] at hwo2
        simp only [hb', Bool.and_eq_true, Bool.not_eq_true'] at this
        rw [nameStart_nameChar hwo2.1] at this; cases this.1
    · exfalso
      have := List.all_eq_true.mp clashPairs_second _ (by simpa using hn)
      cases hb' : b.toList with
      | nil => rw [hb'] at hd2; simp [digitsOk] at hd2
      | cons y ys =>
        rw [hb'] at hd2
        simp only [digitsOk, List.isEmpty_cons, Bool.not_false, Bool.true_and, List.all_eq_true] at hd2
        simp only [hb', Bool.and_eq_true, Bool.not_eq_true'] at this
        rw [hd2 y (by simp)] at this; cases this.2
    · have := List.all_eq_true.mp (List.all_eq_true.mp clash_rows_differ r hr) r2 hr2
      rw [e, e2, ht, ht2] at this
      have hnb : needsBlank a b = true := by rw [← e, ← e2, mem_clashPairs hr hr2, e, e2]; exact hn
      simp only [hnb, Bool.not_true, Bool.false_or, Bool.or_eq_true, List.contains_eq_mem,
        decide_eq_true_eq, bne_iff_ne, ne_eq] at this
      rcases this with h | h
      · exact absurd h hex
      · exact h

end DD
