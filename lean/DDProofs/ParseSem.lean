/-
  DDProofs.ParseSem — the semantic half of C05: the reference returned by the bottom-up
  evaluation of a syntax tree (`evalAst`, i.e. what `_Translator` does during the reductions)
  denotes the value of an independent, purely semantic evaluator of the tree over assignments
  by variable NAME; and the `ite(var, high, low)` unfolding printed by `to_expr` evaluates back
  to the very reference it was printed from (canonicity).
-/
import DDProofs.ToExprProofs
import DDProofs.ApplyProofs
import DDProofs.SubstWrappers
import DDProofs.LetCopy
open Std
namespace DD

/-! ### the semantic evaluator -/

/-- assignment by level induced by an assignment by name -/
def asgOf (tb : Tbl) (an : String → Bool) : Asg := fun lvl =>
  match tb.l2v[lvl]? with
  | some v => an v
  | none => false

def updName (an : String → Bool) (x : String) (b : Bool) : String → Bool :=
  fun y => if y = x then b else an y

/-- truth function of a binary operator token (`=` has no meaning) -/
def BinOp.sem : BinOp → Bool → Bool → Bool
  | .and, u, v => u && v
  | .or, u, v => u || v
  | .xorHash, u, v => u != v
  | .xorCaret, u, v => u != v
  | .implies, u, v => !u || v
  | .equiv, u, v => u == v
  | .minus, u, v => u && !v
  | .equals, _, _ => false

/-- `\A x, y, … : k` / `\E x, y, … : k` by expansion over the two values of each name -/
def quantNames (fa : Bool) : List String → ((String → Bool) → Bool) → (String → Bool) → Bool
  | [], k, an => k an
  | x :: xs, k, an =>
    let u := quantNames fa xs k (updName an x false)
    let v := quantNames fa xs k (updName an x true)
    if fa then u && v else u || v

/-- the documented meaning of a syntax tree under an assignment by name; the table is used
only for the functions of the nodes named by `@n` -/
def evalFormula (tb : Tbl) : Ast → (String → Bool) → Bool
  | .var x, an => an x
  | .bool b, _ => b
  | .num neg d, an =>
    den tb (if neg then -(digitsToNat d : Int) else (digitsToNat d : Int)) (asgOf tb an)
  | .not e, an => !evalFormula tb e an
  | .bin o l r, an => o.sem (evalFormula tb l an) (evalFormula tb r an)
  | .ite a b c, an => if evalFormula tb a an then evalFormula tb b an else evalFormula tb c an
  | .quant fa ns e, an => quantNames fa ns (evalFormula tb e) an
  | .subst ss e, an =>
    -- `\S new / old, … : e`: every `old` is read as its `new` (simultaneously; the last pair
    -- of one `old` wins, as in the dictionary the translator builds)
    evalFormula tb e fun y => an (tgtName (ss.map fun s => (s.2, s.1)) y)

/-- formulas that have a meaning in the manager: names declared, `@n` names a node, no `=` -/
def Meaningful (tb : Tbl) : Ast → Prop
  | .var x => tb.vars.contains x = true
  | .bool _ => True
  | .num neg d => tb.Mem (if neg then -(digitsToNat d : Int) else (digitsToNat d : Int))
  | .not e => Meaningful tb e
  | .bin o l r => o ≠ .equals ∧ Meaningful tb l ∧ Meaningful tb r
  | .ite a b c => Meaningful tb a ∧ Meaningful tb b ∧ Meaningful tb c
  | .quant _ ns e => (∀ x, x ∈ ns → tb.vars.contains x = true) ∧ Meaningful tb e
  | .subst ss e => (∀ s, s ∈ ss → tb.vars.contains s.1 = true) ∧ Meaningful tb e

/-! ### transport along steps -/

theorem asgOf_congr {t t' : Tbl} (h : t'.l2v = t.l2v) (an : String → Bool) : asgOf t' an = asgOf t an := by
  funext i; simp [asgOf, h]

theorem VarsBij.frame' {m m' : Mgr} (h : VarsBij m.tbl) (hf : Frame m m') : VarsBij m'.tbl := by
  have hn : m'.tbl.nvars = m.tbl.nvars := by simp [Tbl.nvars, hf.vars]
  refine ⟨?_, ?_, ?_, ?_⟩
  · intro v i hv; rw [hf.vars] at hv; rw [hf.l2v]; exact h.v2l v i hv
  · intro i v hv; rw [hf.l2v] at hv; rw [hf.vars]; exact h.l2v i v hv
  · intro v i hv; rw [hf.vars] at hv; rw [hn]; exact h.lt v i hv
  · intro i hi; rw [hn] at hi; rw [hf.vars]; exact h.onto i hi

theorem Meaningful.step {m m' : Mgr} (hs : Step m m') : ∀ {t : Ast}, Meaningful m.tbl t → Meaningful m'.tbl t := by
  intro t
  induction t with
  | var x => intro h; simp only [Meaningful] at h ⊢; rw [hs.frame.vars]; exact h
  | bool b => intro _; trivial
  | num neg d => intro h; exact hs.ext.mem h
  | not e ih => intro h; exact ih h
  | bin o l r ihl ihr => intro h; exact ⟨h.1, ihl h.2.1, ihr h.2.2⟩
  | ite a b c iha ihb ihc => intro h; exact ⟨iha h.1, ihb h.2.1, ihc h.2.2⟩
  | quant fa ns e ih =>
    intro h
    refine ⟨?_, ih h.2⟩
    intro x hx; rw [hs.frame.vars]; exact h.1 x hx
  | subst ss e ih =>
    intro h
    refine ⟨?_, ih h.2⟩
    intro x hx; rw [hs.frame.vars]; exact h.1 x hx

theorem evalFormula_step {m m' : Mgr} (hI : Inv m) (hs : Step m m') :
    ∀ (t : Ast), Meaningful m.tbl t → ∀ an, evalFormula m'.tbl t an = evalFormula m.tbl t an := by
  intro t
  induction t with
  | var x => intro _ an; rfl
  | bool b => intro _ an; rfl
  | num neg d =>
    intro h an
    simp only [evalFormula]
    rw [asgOf_congr hs.frame.l2v, den_ext hs.ext hI.wf.toWF _ _ h]
  | not e ih => intro h an; simp only [evalFormula, ih h]
  | bin o l r ihl ihr => intro h an; simp only [evalFormula, ihl h.2.1, ihr h.2.2]
  | ite a b c iha ihb ihc => intro h an; simp only [evalFormula, iha h.1, ihb h.2.1, ihc h.2.2]
  | quant fa ns e ih =>
    intro h an
    simp only [evalFormula]
    have : evalFormula m'.tbl e = evalFormula m.tbl e := funext (ih h.2)
    rw [this]
  | subst ss e ih => intro h an; simp only [evalFormula, ih h.2]

/-! ### names and levels -/

theorem asgOf_updName (tb : Tbl) (hV : VarsBij tb) (an : String → Bool) (x : String) (b : Bool)
    (hx : tb.vars.contains x = true) :
    asgOf tb (updName an x b) = upd (asgOf tb an) (lvlOf tb x) b := by
  obtain ⟨l, hl⟩ := (vars_contains_iff tb x).mp hx
  have hlx : lvlOf tb x = l := lvlOf_eq hl
  funext i
  simp only [asgOf, upd, hlx]
  cases hi : tb.l2v[i]? with
  | none =>
    have : i ≠ l := by
      intro he; subst he
      rw [hV.v2l _ _ hl] at hi; cases hi
    simp [this]
  | some v =>
    simp only [updName]
    by_cases hvx : v = x
    · subst hvx
      have := hV.l2v _ _ hi
      rw [hl] at this
      have : i = l := (Option.some.inj this).symm
      simp [this]
    · have : i ≠ l := by
        intro he; subst he
        rw [hV.v2l _ _ hl] at hi
        exact hvx (Option.some.inj hi).symm
      simp [hvx, this]

theorem agreeOff_cons_iff (l : Nat) (Q : List Nat) (b a : Asg) :
    AgreeOff (l :: Q) b a ↔ AgreeOff Q b (upd a l (b l)) := by
  constructor
  · intro h j hj
    by_cases hjl : j = l
    · subst hjl; simp
    · rw [upd_other _ _ _ _ hjl]
      exact h j (by simp [hjl, hj])
  · intro h j hj
    have hjl : j ≠ l := fun he => hj (by simp [he])
    have hjQ : j ∉ Q := fun he => hj (by simp [he])
    have := h j hjQ
    rwa [upd_other _ _ _ _ hjl] at this

theorem qsem_cons (fa : Bool) (l : Nat) (Q : List Nat) (F : Asg → Bool) (a : Asg) :
    qsem fa (l :: Q) F a ↔
      (match fa with
       | true => qsem true Q F (upd a l false) ∧ qsem true Q F (upd a l true)
       | false => qsem false Q F (upd a l false) ∨ qsem false Q F (upd a l true)) := by
  cases fa with
  | true =>
    simp only [qsem]
    constructor
    · intro h
      constructor
      · intro b hb
        apply h b
        rw [agreeOff_cons_iff]
        have : b l = false ∨ b l = true := by cases b l <;> simp
        intro j hj
        have hb' := hb j hj
        by_cases hjl : j = l
        · subst hjl; simp
        · rw [upd_other _ _ _ _ hjl]; rw [upd_other _ _ _ _ hjl] at hb'; exact hb'
      · intro b hb
        apply h b
        rw [agreeOff_cons_iff]
        intro j hj
        have hb' := hb j hj
        by_cases hjl : j = l
        · subst hjl; simp
        · rw [upd_other _ _ _ _ hjl]; rw [upd_other _ _ _ _ hjl] at hb'; exact hb'
    · intro ⟨h0, h1⟩ b hb
      rw [agreeOff_cons_iff] at hb
      cases hbl : b l with
      | false => rw [hbl] at hb; exact h0 b hb
      | true => rw [hbl] at hb; exact h1 b hb
  | false =>
    simp only [qsem]
    constructor
    · intro ⟨b, hb, hF⟩
      rw [agreeOff_cons_iff] at hb
      cases hbl : b l with
      | false => rw [hbl] at hb; exact Or.inl ⟨b, hb, hF⟩
      | true => rw [hbl] at hb; exact Or.inr ⟨b, hb, hF⟩
    · intro h
      rcases h with ⟨b, hb, hF⟩ | ⟨b, hb, hF⟩
      · refine ⟨b, ?_, hF⟩
        intro j hj
        have hjl : j ≠ l := fun he => hj (by simp [he])
        have hjQ : j ∉ Q := fun he => hj (by simp [he])
        have := hb j hjQ
        rwa [upd_other _ _ _ _ hjl] at this
      · refine ⟨b, ?_, hF⟩
        intro j hj
        have hjl : j ≠ l := fun he => hj (by simp [he])
        have hjQ : j ∉ Q := fun he => hj (by simp [he])
        have := hb j hjQ
        rwa [upd_other _ _ _ _ hjl] at this

theorem qsem_nil (fa : Bool) (F : Asg → Bool) (a : Asg) : qsem fa [] F a ↔ F a = true := by
  apply qsem_noop
  intro b hb
  have : b = a := funext fun j => hb j (by simp)
  rw [this]

/-- quantification over the levels of a list of declared names is the expansion over the
values of the names -/
theorem qsem_names (tb : Tbl) (hV : VarsBij tb) (fa : Bool) (F : Asg → Bool) :
    ∀ (ns : List String), (∀ x, x ∈ ns → tb.vars.contains x = true) → ∀ an,
    qsem fa (ns.map (lvlOf tb)) F (asgOf tb an) ↔
      quantNames fa ns (fun an' => F (asgOf tb an')) an = true := by
  intro ns
  induction ns with
  | nil => intro _ an; simp only [List.map_nil, quantNames]; exact qsem_nil fa F _
  | cons x xs ih =>
    intro h an
    have hx := h x (by simp)
    have hxs : ∀ y, y ∈ xs → tb.vars.contains y = true := fun y hy => h y (by simp [hy])
    simp only [List.map_cons, quantNames]
    rw [qsem_cons]
    rw [← asgOf_updName tb hV an x false hx, ← asgOf_updName tb hV an x true hx]
    cases fa with
    | true =>
      simp only [if_true, Bool.and_eq_true]
      rw [ih hxs, ih hxs]
    | false =>
      simp only [Bool.false_eq_true, if_false, Bool.or_eq_true]
      rw [ih hxs, ih hxs]

/-! ### the operations the translator calls -/

/-- `BDD.var(name)` for a declared name, reordering not enabled -/
theorem var_spec_off (m : Mgr) (hI : Inv m) (hoff : m.lastLen = none) (hV : VarsBij m.tbl)
    (x : String) (hx : m.tbl.vars.contains x = true) :
    ∃ r m', var x m = (.ok r, m') ∧ Step m m' ∧ m'.tbl.Mem r ∧
      ∀ an, den m'.tbl r (asgOf m.tbl an) = an x := by
  obtain ⟨l, hl⟩ := (vars_contains_iff m.tbl x).mp hx
  have hlt : l < m.nvars := hV.lt _ _ hl
  obtain ⟨g, m1, he, hs, hm, _, hd⟩ :=
    varNode_off { m with ctx := true } (hI.setCtx true) hoff l hlt
  refine ⟨g, { m1 with ctx := m.ctx }, ?_, ?_, hm, ?_⟩
  · unfold var
    apply tryToReorder_ok
    simp only [bind, M.bind', M.get]
    show (match m.tbl.vars[x]? with
      | none => M.throw .value
      | some j => findOrAdd (j : Int) (-1) 1) { m with ctx := true } = _
    rw [hl]
    exact he
  · exact ⟨hs.inv.setCtx _, hs.ext,
      ⟨hs.frame.vars, hs.frame.l2v, hs.frame.lastLen, rfl, hs.frame.sched, hs.frame.roots⟩⟩
  · intro an
    show den m1.tbl g (asgOf m.tbl an) = an x
    rw [hd]
    simp [asgOf, hV.v2l _ _ hl]

/-- every binary operator token except `=` reaches `apply` with a value of the vocabulary whose
documented connective is the truth function of the token -/
theorem binop_conn (o : BinOp) (h : o ≠ .equals) :
    ∃ c, docConn o.value = some c ∧ c.arity = 2 ∧ c ≠ .forall_ ∧ c ≠ .exists_ ∧
      Gen.allOps.contains o.value = true ∧ ∀ u v, c.eval u v false = o.sem u v := by
  cases o with
  | equals => exact absurd rfl h
  | and => exact ⟨.and, by decide, by decide, by decide, by decide, by decide, fun u v => rfl⟩
  | or => exact ⟨.or, by decide, by decide, by decide, by decide, by decide, fun u v => rfl⟩
  | xorHash => exact ⟨.xor, by decide, by decide, by decide, by decide, by decide, fun u v => rfl⟩
  | xorCaret => exact ⟨.xor, by decide, by decide, by decide, by decide, by decide, fun u v => rfl⟩
  | implies => exact ⟨.implies, by decide, by decide, by decide, by decide, by decide, fun u v => rfl⟩
  | equiv => exact ⟨.equiv, by decide, by decide, by decide, by decide, by decide, fun u v => rfl⟩
  | minus => exact ⟨.diff, by decide, by decide, by decide, by decide, by decide, fun u v => rfl⟩

theorem C05_at_n_aux (neg : Bool) (d : String) (m : Mgr) :
    evalAst (.num neg d) m =
      if m.mem (if neg then -(digitsToNat d : Int) else (digitsToNat d : Int)) then
        (.ok (if neg then -(digitsToNat d : Int) else (digitsToNat d : Int)), m)
      else (.error .value, m) := by
  simp only [evalAst, addInt]
  cases h : m.mem (if neg then -(digitsToNat d : Int) else (digitsToNat d : Int)) <;>
    simp [bind, M.bind', M.get, M.throw, pure, M.pure', h]

theorem M_bind_ok {α β} (x : M α) (f : α → M β) (m m1 : Mgr) (a : α) (h : x m = (.ok a, m1)) :
    (x >>= f) m = f a m1 := by
  show M.bind' x f m = _
  simp only [M.bind', h]

/-! ### the bottom-up evaluation denotes the documented meaning -/

theorem Step.of {m m' : Mgr} (hI : Inv m') (he : Ext m.tbl m'.tbl) (hf : Frame m m') : Step m m' :=
  ⟨hI, he, hf⟩

theorem evalAst_spec : ∀ (t : Ast) (m : Mgr), Inv m → m.lastLen = none → VarsBij m.tbl →
    Meaningful m.tbl t →
    ∃ r m', evalAst t m = (.ok r, m') ∧ Step m m' ∧ m'.tbl.Mem r ∧
      ∀ an, den m'.tbl r (asgOf m.tbl an) = evalFormula m.tbl t an := by
  intro t
  induction t with
  | var x =>
    intro m hI hoff hV hM
    obtain ⟨r, m', he, hs, hm, hd⟩ := var_spec_off m hI hoff hV x hM
    exact ⟨r, m', he, hs, hm, hd⟩
  | bool b =>
    intro m hI hoff hV _
    cases b
    · exact ⟨-1, m, rfl, Step.refl hI, mem_neg_one _, fun an => den_neg_one _ _⟩
    · exact ⟨1, m, rfl, Step.refl hI, mem_one _, fun an => den_one _ _⟩
  | num neg d =>
    intro m hI hoff hV hM
    refine ⟨_, m, ?_, Step.refl hI, hM, fun an => rfl⟩
    rw [C05_at_n_aux]
    simp [(Mgr.mem_iff m _).mpr hM]
  | not e ih =>
    intro m hI hoff hV hM
    obtain ⟨u, m1, he, hs, hm, hd⟩ := ih m hI hoff hV hM
    obtain ⟨ha, hmn, hdn⟩ := apply_not_spec m1 hs.inv "!" (by decide) (by decide) u hm
    refine ⟨-u, m1, ?_, hs, hmn, ?_⟩
    · simp only [evalAst]
      rw [M_bind_ok _ _ m m1 u he]
      exact ha
    · intro an
      rw [hdn, hd]
      rfl
  | bin o l r ihl ihr =>
    intro m hI hoff hV hM
    obtain ⟨ho, hMl, hMr⟩ := hM
    obtain ⟨u, m1, he1, hs1, hm1, hd1⟩ := ihl m hI hoff hV hMl
    obtain ⟨v, m2, he2, hs2, hm2, hd2⟩ :=
      ihr m1 hs1.inv (hs1.off hoff) (hV.frame' hs1.frame) (hMl.step hs1 |> fun _ => hMr.step hs1)
    obtain ⟨c, hc, h2, hq1, hq2, hall, hsem⟩ := binop_conn o ho
    obtain ⟨w, m3, he3, hI3, hx3, hm3, hf3, hd3⟩ :=
      apply_binary_spec m2 hs2.inv ((hs1.trans hs2).off hoff) o.value c hc h2 hq1 hq2 hall u v
        (hs2.ext.mem hm1) hm2
    refine ⟨w, m3, ?_, (hs1.trans hs2).trans (Step.of hI3 hx3 hf3), hm3, ?_⟩
    · simp only [evalAst]
      rw [M_bind_ok _ _ m m1 u he1, M_bind_ok _ _ m1 m2 v he2]
      exact he3
    · intro an
      rw [hd3, hsem]
      simp only [evalFormula]
      rw [den_ext hs2.ext hs1.inv.wf.toWF u _ hm1, hd1]
      have h2' := hd2 an
      rw [asgOf_congr hs1.frame.l2v, evalFormula_step hI hs1 r hMr] at h2'
      rw [h2']
  | ite a b c iha ihb ihc =>
    intro m hI hoff hV hM
    obtain ⟨hMa, hMb, hMc⟩ := hM
    obtain ⟨u, m1, he1, hs1, hm1, hd1⟩ := iha m hI hoff hV hMa
    obtain ⟨v, m2, he2, hs2, hm2, hd2⟩ :=
      ihb m1 hs1.inv (hs1.off hoff) (hV.frame' hs1.frame) (hMb.step hs1)
    have hs12 := hs1.trans hs2
    obtain ⟨w, m3, he3, hs3, hm3, hd3⟩ :=
      ihc m2 hs2.inv (hs12.off hoff) (hV.frame' hs12.frame) (hMc.step hs12)
    have hs123 := hs12.trans hs3
    obtain ⟨x, m4, he4, hI4, hx4, hm4, hf4, hd4⟩ :=
      apply_ite_spec m3 hs3.inv (hs123.off hoff) "ite" (by decide) (by decide) u v w
        (hs3.ext.mem (hs2.ext.mem hm1)) (hs3.ext.mem hm2) hm3
    refine ⟨x, m4, ?_, hs123.trans (Step.of hI4 hx4 hf4), hm4, ?_⟩
    · simp only [evalAst]
      rw [M_bind_ok _ _ m m1 u he1, M_bind_ok _ _ m1 m2 v he2, M_bind_ok _ _ m2 m3 w he3]
      exact he4
    · intro an
      rw [hd4]
      simp only [evalFormula]
      rw [den_ext (hs2.ext.trans hs3.ext) hs1.inv.wf.toWF u _ hm1, hd1,
        den_ext hs3.ext hs2.inv.wf.toWF v _ hm2]
      have h2' := hd2 an
      rw [asgOf_congr hs1.frame.l2v, evalFormula_step hI hs1 b hMb] at h2'
      have h3' := hd3 an
      rw [asgOf_congr hs12.frame.l2v, evalFormula_step hI hs12 c hMc] at h3'
      rw [h2', h3']
  | quant fa ns e ih =>
    intro m hI hoff hV hM
    obtain ⟨hns, hMe⟩ := hM
    obtain ⟨u, m1, he1, hs1, hm1, hd1⟩ := ih m hI hoff hV hMe
    have hns1 : ∀ s, s ∈ ns → m1.tbl.vars.contains s = true := by
      intro s hs; rw [hs1.frame.vars]; exact hns s hs
    obtain ⟨r, m2, he2, hI2, hx2, hm2, hf2, _, hd2⟩ :=
      quantify_spec m1 hs1.inv (hs1.off hoff) u hm1 (ns.map Key.name) fa _
        (mapToLevelE_names m1.tbl ns hns1)
    refine ⟨r, m2, ?_, hs1.trans (Step.of hI2 hx2 hf2), hm2, ?_⟩
    · simp only [evalAst]
      rw [M_bind_ok _ _ m m1 u he1]
      exact he2
    · intro an
      have hV1 := hV.frame' hs1.frame
      have hq := hd2 (asgOf m.tbl an)
      rw [← asgOf_congr hs1.frame.l2v an] at hq
      rw [qsem_names m1.tbl hV1 fa (den m1.tbl u) ns hns1 an] at hq
      simp only [evalFormula]
      have hfun : (fun an' => den m1.tbl u (asgOf m1.tbl an')) = evalFormula m.tbl e := by
        funext an'
        rw [asgOf_congr hs1.frame.l2v]
        exact hd1 an'
      rw [hfun] at hq
      rw [asgOf_congr hs1.frame.l2v] at hq
      cases hb : quantNames fa ns (evalFormula m.tbl e) an with
      | true => exact hq.mpr hb
      | false =>
        cases hr : den m2.tbl r (asgOf m.tbl an) with
        | false => rfl
        | true => rw [hq.mp hr] at hb; cases hb
  | subst ss e ih =>
    intro m hI hoff hV hM
    obtain ⟨hss, hMe⟩ := hM
    obtain ⟨u, m1, he1, hs1, hm1, hd1⟩ := ih m hI hoff hV hMe
    have hV1 := hV.frame' hs1.frame
    have hd : ∀ p, p ∈ (ss.map fun s => (s.2, s.1)) → m1.tbl.vars.contains p.2 = true := by
      intro p hp
      obtain ⟨s, hs, rfl⟩ := List.mem_map.mp hp
      rw [hs1.frame.vars]; exact hss s hs
    obtain ⟨r, m2, he2, hI2, hx2, hm2, hf2, hd2⟩ :=
      rename_spec m1 hs1.inv (hs1.off hoff) hV1 u hm1 (ss.map fun s => (s.2, s.1)) hd
    refine ⟨r, m2, ?_, hs1.trans (Step.of hI2 hx2 hf2), hm2, ?_⟩
    · simp only [evalAst]
      rw [M_bind_ok _ _ m m1 u he1]
      exact he2
    · intro an
      rw [hd2]
      simp only [evalFormula]
      rw [← hd1]
      congr 1
      funext i
      simp only [asgOf, renLevel, hs1.frame.l2v]
      cases hi : m.tbl.l2v[i]? with
      | none => simp [hi]
      | some v =>
        -- the target name is declared, so its level carries its name
        have hv : m1.tbl.vars.contains v = true := by
          rw [hs1.frame.vars]
          exact (vars_contains_iff _ _).mpr ⟨i, hV.l2v _ _ hi⟩
        have ht := tgtName_declared m1.tbl _ hd v hv
        obtain ⟨l, hl⟩ := (vars_contains_iff _ _).mp ht
        have := hV1.v2l _ _ hl
        rw [hs1.frame.l2v] at this
        simp only [lvlOf_eq hl, this]

/-- `BDD.add_expr` on a text that reads as the tree `t` -/
theorem addExpr_spec (m : Mgr) (hI : Inv m) (hoff : m.lastLen = none) (hV : VarsBij m.tbl)
    (s : String) (t : Ast) (hp : parse (tokenize s) = some t) (hM : Meaningful m.tbl t) :
    ∃ r m', addExpr s m = (.ok r, m') ∧ Step m m' ∧ m'.tbl.Mem r ∧
      ∀ an, den m'.tbl r (asgOf m.tbl an) = evalFormula m.tbl t an := by
  have htoks : addExprToks (tokenize s) = evalAst t := by
    simp only [parse] at hp
    unfold addExprToks
    split at hp
    · rename_i t' ht'
      simp only [Option.some.injEq] at hp
      subst hp
      rw [ht']
    · simp at hp
  obtain ⟨r, m1, he, hs, hm, hd⟩ := evalAst_spec t { m with ctx := true } (hI.setCtx true) hoff hV hM
  refine ⟨r, { m1 with ctx := m.ctx }, ?_, ?_, hm, hd⟩
  · unfold addExpr
    rw [htoks]
    exact tryToReorder_ok _ m r m1 he
  · exact ⟨hs.inv.setCtx _, hs.ext,
      ⟨hs.frame.vars, hs.frame.l2v, hs.frame.lastLen, rfl, hs.frame.sched, hs.frame.roots⟩⟩

/-! ### `to_expr`: the printed unfolding means the reference it was printed from -/

theorem natAbs_ne_one {u : Int} (h1 : u ≠ 1) (h2 : u ≠ -1) : u.natAbs ≠ 1 := by omega

theorem toExprAst_sem (t : Tbl) (hw : WF t) (hV : VarsBij t) :
    ∀ (f : Nat) (u : Int) (a : Ast), toExprAstF f t u = .ok a → t.Mem u →
      Meaningful t a ∧ ∀ an, evalFormula t a an = den t u (asgOf t an) := by
  intro f
  induction f with
  | zero => intro u a h; simp [toExprAstF] at h
  | succ f ih =>
    intro u a h hu
    rw [toExprAstF] at h
    by_cases h1 : u = 1
    · simp only [h1, if_true, Except.ok.injEq] at h
      subst h; subst h1
      exact ⟨trivial, fun an => (den_one _ _).symm⟩
    · by_cases h2 : u = -1
      · simp only [h2, if_true] at h
        have : a = .bool false := by
          simp at h; exact h.symm
        subst this; subst h2
        exact ⟨trivial, fun an => (den_neg_one _ _).symm⟩
      · simp only [h1, h2, if_false] at h
        cases hn : t.succ[u.natAbs]? with
        | none => simp [hn] at h
        | some n =>
          simp only [hn] at h
          by_cases hz : (n.lo = 0 || n.hi = 0) = true
          · simp [hz] at h
          · simp only [hz, Bool.false_eq_true, if_false] at h
            cases hv : t.l2v[n.lvl]? with
            | none => simp [hv] at h
            | some var =>
              simp only [hv] at h
              cases hp : toExprAstF f t n.lo with
              | error e => simp [hp] at h
              | ok p =>
                cases hq : toExprAstF f t n.hi with
                | error e => simp [hp, hq] at h
                | ok q =>
                  simp only [hp, hq, Except.ok.injEq] at h
                  have hnode : t.node? u.natAbs = some n := hn
                  have hna := natAbs_ne_one h1 h2
                  obtain ⟨hMp, hdp⟩ := ih n.lo p hp (hw.lo_mem _ _ hnode)
                  obtain ⟨hMq, hdq⟩ := ih n.hi q hq (hw.hi_mem _ _ hnode)
                  have hvar : t.vars.contains var = true :=
                    (vars_contains_iff _ _).mpr ⟨n.lvl, hV.l2v _ _ hv⟩
                  have hlvl : ∀ an, asgOf t an n.lvl = an var := by
                    intro an; simp [asgOf, hv]
                  -- the inner term
                  have hin : Meaningful t (if p = .bool false ∧ q = .bool true then .var var
                        else .ite (.var var) q p) ∧
                      ∀ an, evalFormula t (if p = .bool false ∧ q = .bool true then .var var
                        else .ite (.var var) q p) an =
                        (if asgOf t an n.lvl then den t n.hi (asgOf t an) else den t n.lo (asgOf t an)) := by
                    by_cases hc : p = .bool false ∧ q = .bool true
                    · rw [if_pos hc]
                      refine ⟨hvar, ?_⟩
                      intro an
                      have e1 := hdp an
                      have e2 := hdq an
                      rw [hc.1] at e1
                      rw [hc.2] at e2
                      simp only [evalFormula] at e1 e2
                      rw [← e1, ← e2, hlvl]
                      simp only [evalFormula]
                      cases an var <;> rfl
                    · rw [if_neg hc]
                      refine ⟨⟨hvar, hMq, hMp⟩, ?_⟩
                      intro an
                      simp only [evalFormula]
                      rw [hdp, hdq, hlvl]
                      by_cases hb : an var = true <;> simp [hb]
                  subst h
                  by_cases hneg : u < 0
                  · simp only [hneg, if_true]
                    refine ⟨hin.1, ?_⟩
                    intro an
                    simp only [evalFormula]
                    rw [hin.2, den_node t hw u n _ hna hnode]
                    simp [hneg]
                  · simp only [hneg, if_false]
                    refine ⟨hin.1, ?_⟩
                    intro an
                    rw [hin.2, den_node t hw u n _ hna hnode]
                    simp [hneg]

/-- every assignment by level agrees, on the declared levels, with one induced by names -/
theorem den_by_name (t : Tbl) (hw : WF t) (hV : VarsBij t) (u : Int) (hu : t.Mem u) (a : Asg) :
    den t u a = den t u (asgOf t fun x => a (lvlOf t x)) := by
  apply den_agree_ge t hw u hu
  intro i _ hi
  obtain ⟨v, hv⟩ := hV.onto i hi
  simp [asgOf, hV.v2l _ _ hv, lvlOf_eq hv]

/-- `add_expr(to_expr(u)) == u` -/
theorem addExpr_toExpr (m : Mgr) (hI : Inv m) (hoff : m.lastLen = none) (hV : VarsBij m.tbl)
    (u : Int) (hn : NamesBelow m.tbl u)
    (hu : m.tbl.Mem u) (s : String) (h : toExpr m.tbl u = .ok s) :
    ∃ m', addExpr s m = (.ok u, m') ∧ Step m m' := by
  obtain ⟨f, a, ha, _, hp⟩ := parse_toExpr m.tbl u hn s h
  obtain ⟨hM, hsem⟩ := toExprAst_sem m.tbl hI.wf.toWF hV f u a ha hu
  obtain ⟨r, m', he, hs, hm, hd⟩ := addExpr_spec m hI hoff hV s a hp hM
  have hV' := hV.frame' hs.frame
  have hru : r = u := by
    apply (canonical m'.tbl hs.inv.wf r u hm (hs.ext.mem hu)).mp
    intro b
    rw [den_by_name m'.tbl hs.inv.wf.toWF hV' r hm b,
      den_by_name m'.tbl hs.inv.wf.toWF hV' u (hs.ext.mem hu) b]
    rw [asgOf_congr hs.frame.l2v, hd, hsem, den_ext hs.ext hI.wf.toWF u _ hu]
  subst hru
  exact ⟨m', he, hs⟩

/-! ### `to_expr` is total on references of a well-formed table -/

theorem toExprF_total (t : Tbl) (hw : WF t) (hV : VarsBij t) :
    ∀ (f : Nat) (u : Int) (cache : HashMap Int String), t.Mem u → t.nvars + 1 ≤ f + t.levelOf u →
      ∃ s c', toExprF f t u cache = .ok (s, c') := by
  intro f
  induction f with
  | zero =>
    intro u cache _ hf
    have := levelOf_le t hw u
    omega
  | succ f ih =>
    intro u cache hu hf
    rw [toExprF]
    by_cases h1 : u = 1
    · exact ⟨_, _, by simp only [h1, if_true]; rfl⟩
    · by_cases h2 : u = -1
      · exact ⟨_, _, by simp only [h2, if_true]; rfl⟩
      · simp only [h1, h2, if_false]
        cases hcu : cache[u]? with
        | some s0 => exact ⟨_, _, rfl⟩
        | none =>
          have hna := natAbs_ne_one h1 h2
          obtain ⟨n, hn⟩ := mem_node hu hna
          have hn' : t.succ[u.natAbs]? = some n := hn
          have hz : (n.lo = 0 || n.hi = 0) = false := by
            have := node_succ_ne_zero hw hn
            simp only [not_or] at this
            simp [this.1, this.2]
          have hlt := hw.lvl_lt _ _ hn
          obtain ⟨v, hv⟩ := hV.onto n.lvl hlt
          have hl2v := hV.v2l _ _ hv
          have hlu := levelOf_node t u n hna hn
          obtain ⟨ps, c1, hp⟩ := ih n.lo cache (hw.lo_mem _ _ hn)
            (by have := hw.lo_lt _ _ hn; omega)
          obtain ⟨qs, c2, hq⟩ := ih n.hi c1 (hw.hi_mem _ _ hn)
            (by have := hw.hi_lt _ _ hn; omega)
          simp only [hn', hz, Bool.false_eq_true, if_false, hl2v, hp, hq]
          exact ⟨_, _, rfl⟩

theorem toExpr_total (t : Tbl) (hw : WF t) (hV : VarsBij t) (u : Int) (hu : t.Mem u) :
    ∃ s, toExpr t u = .ok s := by
  obtain ⟨s, c, h⟩ := toExprF_total t hw hV (t.nvars + 2) u {} hu (by omega)
  refine ⟨s, ?_⟩
  unfold toExpr
  simp [(Tbl.mem_iff t u).mpr hu, h, Except.map]

end DD
