/-
  DDProofs.SatPickCount — with the default care set `pick_iter` yields `count(u)` assignments.
-/
import DDProofs.SatPick
import DDProofs.SatCount
open Std

namespace DD

/-- the denotation only reads the levels it depends on -/
theorem den_congr_on {t : Tbl} (hw : WFU t) (a b : Asg) : ∀ u, t.Mem u →
    (∀ i, dependsOn t u i → a i = b i) → den t u a = den t u b := by
  have hW := hw.toWF
  apply ref_induction hW
  · intro u h1 _; rw [den_term h1, den_term h1]
  · intro u n h1 hn ihlo ihhi hab
    rw [den_node t hW u n a h1 hn, den_node t hW u n b h1 hn,
      hab _ (node_depends_on_own_level hw h1 hn)]
    have hsub : ∀ c : Int, (c = n.lo ∨ c = n.hi) → ∀ i, dependsOn t c i → dependsOn t u i := by
      intro c hc i hd
      have hne : i ≠ n.lvl := by
        intro he
        rcases hc with hc | hc <;> subst hc
        · exact dependsOn_lt hW (hW.lo_mem _ _ hn) (by rw [he]; exact hW.lo_lt _ _ hn) hd
        · exact dependsOn_lt hW (hW.hi_mem _ _ hn) (by rw [he]; exact hW.hi_lt _ _ hn) hd
      rw [dependsOn_node hW h1 hn hne]
      rcases hc with hc | hc <;> subst hc
      · exact Or.inl hd
      · exact Or.inr hd
    rw [ihlo (fun i hd => hab i (hsub _ (Or.inl rfl) i hd)),
      ihhi (fun i hd => hab i (hsub _ (Or.inr rfl) i hd))]

theorem mem_allAsg : ∀ vs a b, b ∈ allAsg vs a ↔ ∀ i, i ∉ vs → b i = a i := by
  intro vs
  induction vs with
  | nil =>
    intro a b
    simp only [allAsg, List.mem_singleton, List.not_mem_nil, not_false_eq_true, forall_const]
    constructor
    · intro h i; rw [h]
    · intro h; funext i; exact h i
  | cons v vs ih =>
    intro a b
    simp only [allAsg, List.mem_append, ih]
    constructor
    · rintro (h | h) <;> intro i hi <;> rw [h i (fun hc => hi (List.mem_cons_of_mem _ hc))] <;>
        exact upd_other _ _ _ _ (fun hc => hi (hc ▸ List.mem_cons_self))
    · intro h
      cases hb : b v
      · left; intro i hi
        by_cases hiv : i = v
        · subst hiv; rw [hb]; exact (upd_same _ _ _).symm
        · rw [upd_other _ _ _ _ hiv]; apply h; intro hc
          rcases List.mem_cons.mp hc with hc | hc
          · exact hiv hc
          · exact hi hc
      · right; intro i hi
        by_cases hiv : i = v
        · subst hiv; rw [hb]; exact (upd_same _ _ _).symm
        · rw [upd_other _ _ _ _ hiv]; apply h; intro hc
          rcases List.mem_cons.mp hc with hc | hc
          · exact hiv hc
          · exact hi hc

theorem nodup_allAsg : ∀ vs a, vs.Nodup → (allAsg vs a).Nodup := by
  intro vs
  induction vs with
  | nil => intro a _; simp [allAsg]
  | cons v vs ih =>
    intro a hnd
    rw [List.nodup_cons] at hnd
    simp only [allAsg]
    rw [List.nodup_append]
    refine ⟨ih _ hnd.2, ih _ hnd.2, ?_⟩
    intro x hx y hy hxy
    subst hxy
    have h1 := (mem_allAsg vs _ x).mp hx v hnd.1
    have h2 := (mem_allAsg vs _ x).mp hy v hnd.1
    rw [upd_same] at h1 h2
    rw [h1] at h2; cases h2

theorem lookup_of_mem {m : List (String × Bool)} (hnd : (m.map (·.1)).Nodup) {v : String} {b : Bool}
    (h : (v, b) ∈ m) : m.lookup v = some b := by
  induction m with
  | nil => simp at h
  | cons p m ih =>
    obtain ⟨k, c⟩ := p
    simp only [List.map_cons, List.nodup_cons] at hnd
    rw [List.lookup_cons]
    rcases List.mem_cons.mp h with h' | h'
    · cases h'; simp
    · have : v ≠ k := by
        intro he; subst he
        exact hnd.1 (List.mem_map.mpr ⟨(v, b), h', rfl⟩)
      have hne : (v == k) = false := by simpa using this
      rw [hne]; exact ih hnd.2 h'

/-- `pick_iter(u)` with the default care set yields exactly `count(u)` assignments -/
theorem pickIter_length {t : Tbl} (hw : WFU t) (hv : VarsOK t) (u : Int) (hm : t.Mem u) :
    ∃ L n, pickIter t u none = .ok L ∧ count t u none = .ok n ∧ L.length = n := by
  have hW := hw.toWF
  obtain ⟨supp, L, hs, hL, hmem, hpw, hcov⟩ := pickIter_spec' hw hv u hm none
  obtain ⟨ls, e, hsorted, hdep, _, hcnt, _⟩ := count_main hw u hm
  obtain ⟨ls', e', _, _, hs'⟩ := support_spec' hw hv u hm
  rw [e] at e'; cases e'
  rw [hs] at hs'; cases hs'
  let a0 : Asg := fun _ => false
  refine ⟨L, _, hL, hcnt a0, ?_⟩
  have hlsn : ls.Nodup := hsorted.imp (fun h => by omega)
  have hlt : ∀ i ∈ ls, i < t.nvars := fun i hi => dependsOn_lt_nvars hw hm ((hdep i).mp hi)
  -- the assignment read off a minterm
  let Φ : List (String × Bool) → Asg := fun m i =>
    if i ∈ ls then (m.lookup (t.nameOf i)).getD false else a0 i
  have hΦval : ∀ m ∈ L, ∀ i ∈ ls, ∀ b, (t.nameOf i, b) ∈ m → Φ m i = b := by
    intro m hmL i hi b hb
    simp only [Φ, hi, if_true]
    rw [lookup_of_mem (hmem m hmL).2.2.1 hb]; rfl
  have hkey : ∀ m ∈ L, ∀ i ∈ ls, ∃ b, (t.nameOf i, b) ∈ m := by
    intro m hmL i hi
    have : t.nameOf i ∈ m.map (·.1) :=
      ((hmem m hmL).2.2.2 rfl _).mpr (List.mem_map.mpr ⟨i, hi, rfl⟩)
    obtain ⟨p, hp, hpe⟩ := List.mem_map.mp this
    exact ⟨p.2, by rw [← hpe]; exact hp⟩
  have hperm : (L.map Φ).Perm ((allAsg ls a0).filter (den t u)) := by
    rw [List.perm_ext_iff_of_nodup]
    · intro b
      rw [List.mem_filter, mem_allAsg, List.mem_map]
      constructor
      · rintro ⟨m, hmL, rfl⟩
        refine ⟨fun i hi => by simp [Φ, hi], ?_⟩
        -- `Φ m` satisfies `u`
        let σ : AsgN := fun v => (m.lookup v).getD false
        have hσ : AgreesN σ m := by
          intro p hp
          simp only [σ]
          rw [lookup_of_mem (hmem m hmL).2.2.1 (show (p.1, p.2) ∈ m from hp)]; rfl
        have := (hmem m hmL).1 σ hσ
        rw [← this]
        unfold denN
        apply den_congr_on hw _ _ u hm
        intro i hd
        have hi := (hdep i).mpr hd
        simp [Φ, hi, Tbl.lift, σ]
      · rintro ⟨hout, hden⟩
        -- a name assignment inducing `b` on the support
        let σ : AsgN := fun v => match ls.find? (fun i => t.nameOf i == v) with
          | some i => b i
          | none => false
        have hσl : ∀ i ∈ ls, σ (t.nameOf i) = b i := by
          intro i hi
          simp only [σ]
          cases hf : ls.find? (fun j => t.nameOf j == t.nameOf i) with
          | none =>
            have := List.find?_eq_none.mp hf i hi
            simp at this
          | some j =>
            have hj := List.find?_some hf
            have hjm := List.mem_of_find?_eq_some hf
            have : j = i := hv.inj j i (hlt j hjm) (hlt i hi) (by simpa using hj)
            rw [this]
        have hdσ : denN t u σ = true := by
          rw [← hden]
          unfold denN
          apply den_congr_on hw _ _ u hm
          intro i hd
          exact hσl i ((hdep i).mpr hd)
        obtain ⟨m, hmL, hag⟩ := hcov σ hdσ
        refine ⟨m, hmL, ?_⟩
        funext i
        by_cases hi : i ∈ ls
        · obtain ⟨c, hc⟩ := hkey m hmL i hi
          rw [hΦval m hmL i hi c hc, ← hσl i hi]
          exact (hag _ hc).symm
        · rw [hout i hi]; simp [Φ, hi]
    · -- incompatible minterms give different assignments
      rw [List.Nodup, List.pairwise_map]
      refine List.Pairwise.imp_of_mem ?_ hpw
      rintro m m' hmL hmL' ⟨v, c, h1, h2⟩ heq
      have hvs : v ∈ ls.map t.nameOf :=
        ((hmem m hmL).2.2.2 rfl v).mp (List.mem_map.mpr ⟨_, h1, rfl⟩)
      obtain ⟨i, hi, rfl⟩ := List.mem_map.mp hvs
      have e1 := hΦval m hmL i hi c h1
      have e2 := hΦval m' hmL' i hi (!c) h2
      rw [heq, e2] at e1
      cases c <;> simp at e1
    · exact (nodup_allAsg ls a0 hlsn).sublist List.filter_sublist
  have := hperm.length_eq
  rw [List.length_map] at this
  rw [this, cnt_eq_filter]

end DD
