import DDProofs.MddLedger

/-!
# The keys of `MDD._ref` are nodes

`collect_garbage()` (no roots) starts from `self._ref`; for it to find every popped node in
`self._succ` the counter table must not have stale keys.  Every operation of the model keeps
`RefKeys` — whatever its outcome — so it holds in every reachable state.
-/

namespace DD
open Std

/-- the keys of `_ref` are the terminal and keys of `_succ` -/
def RefKeys (m : MddMgr) : Prop := ∀ k, m.ref.contains k = true → k = 1 ∨ m.tbl.succ.contains k = true

theorem RefKeys.mem {m : MddMgr} (h : RefKeys m) (k : Nat) (hk : m.ref.contains k = true) :
    m.tbl.Mem ((k : Nat) : Int) := by
  rcases h k hk with h1 | h1
  · left; simpa using h1
  · right
    show (m.tbl.succ[((k : Nat) : Int).natAbs]?).isSome = true
    simp only [Int.natAbs_natCast]
    rw [← TreeMap.contains_eq_isSome_getElem?]; exact h1

theorem RefKeys.mem' {m : MddMgr} (h : RefKeys m) (r : Int) (hk : m.ref.contains r.natAbs = true) :
    m.tbl.Mem r := by
  rcases h _ hk with h1 | h1
  · exact Or.inl h1
  · right
    show (m.tbl.succ[r.natAbs]?).isSome = true
    rw [← TreeMap.contains_eq_isSome_getElem?]; exact h1

theorem mAllocate_rk (m : MddMgr) (r : Except Err Nat) (m' : MddMgr) (h : mAllocate m = (r, m'))
    (hk : RefKeys m) : RefKeys m' := by
  unfold mAllocate at h
  split at h
  · cases h; exact hk
  · split at h
    · cases h; exact hk
    · split at h
      · cases h; exact hk
      · cases h; exact hk

theorem mIncref_rk (u : Int) (m : MddMgr) (r : Except Err Unit) (m' : MddMgr)
    (h : mIncref u m = (r, m')) (hk : RefKeys m) : RefKeys m' := by
  unfold mIncref at h
  split at h
  · cases h; exact hk
  · next c hc =>
    cases h
    intro k hkk
    apply hk k
    have hkk' : (m.ref.insert u.natAbs (c + 1)).contains k = true := hkk
    rw [TreeMap.contains_insert] at hkk'
    simp only [Bool.or_eq_true] at hkk'
    rcases hkk' with e | h1
    · have : u.natAbs = k := by simpa using e
      subst this
      rw [TreeMap.contains_eq_isSome_getElem?, hc]; rfl
    · exact h1

theorem mDecref_rk (u : Int) (m : MddMgr) (r : Except Err Unit) (m' : MddMgr)
    (h : mDecref u m = (r, m')) (hk : RefKeys m) : RefKeys m' := by
  unfold mDecref at h
  split at h
  · cases h; exact hk
  · next c hc =>
    split at h
    · cases h; exact hk
    · cases h
      intro k hkk
      apply hk k
      have hkk' : (m.ref.insert u.natAbs (c - 1)).contains k = true := hkk
      rw [TreeMap.contains_insert] at hkk'
      simp only [Bool.or_eq_true] at hkk'
      rcases hkk' with e | h1
      · have : u.natAbs = k := by simpa using e
        subst this
        rw [TreeMap.contains_eq_isSome_getElem?, hc]; rfl
      · exact h1

theorem mIncrefAll_rk : ∀ (l : List Int) (m : MddMgr) (r : Except Err Unit) (m' : MddMgr),
    mIncrefAll l m = (r, m') → RefKeys m → RefKeys m' := by
  intro l
  induction l with
  | nil => intro m r m' h hk; simp only [mIncrefAll] at h; cases h; exact hk
  | cons k rest ih =>
    intro m r m' h hk
    unfold mIncrefAll at h
    split at h
    · next m1 h1 => exact ih m1 r m' h (mIncref_rk k m _ m1 h1 hk)
    · next e m1 h1 => cases h; exact mIncref_rk k m _ _ h1 hk

theorem mFindOrMake_rk (i : Nat) (L : List Int) (m : MddMgr) (r : Except Err Nat) (m' : MddMgr)
    (h : mFindOrMake i L m = (r, m')) (hk : RefKeys m) : RefKeys m' := by
  unfold mFindOrMake at h
  simp only at h
  split at h
  · cases h; exact hk
  · split at h
    · next e m1 ha => cases h; exact mAllocate_rk m _ _ ha hk
    · next u m1 ha =>
      have hk1 := mAllocate_rk m _ _ ha hk
      split at h
      · cases h; exact hk1
      · have hk2 : RefKeys ({ m1 with
            tbl := { m1.tbl with succ := m1.tbl.succ.insert u ⟨i, L⟩ }
            pred := m1.pred.insert (MNd.key ⟨i, L⟩) u
            ref := m1.ref.insert u 0 } : MddMgr) := by
          intro k hkk
          have hkk' : (m1.ref.insert u 0).contains k = true := hkk
          show k = 1 ∨ (m1.tbl.succ.insert u ⟨i, L⟩).contains k = true
          rw [TreeMap.contains_insert] at hkk' ⊢
          simp only [Bool.or_eq_true] at hkk' ⊢
          rcases hkk' with e | h1
          · exact Or.inr (Or.inl e)
          · rcases hk1 k h1 with h2 | h2
            · exact Or.inl h2
            · exact Or.inr (Or.inr h2)
        split at h
        · next e m3 hinc => cases h; exact mIncrefAll_rk _ _ _ _ hinc hk2
        · next m3 hinc => cases h; exact mIncrefAll_rk _ _ _ _ hinc hk2

theorem mFindOrAddCore_rk (i : Nat) (nodes : List Int) (m : MddMgr) (r : Except Err Int) (m' : MddMgr)
    (h : mFindOrAddCore i nodes m = (r, m')) (hk : RefKeys m) : RefKeys m' := by
  unfold mFindOrAddCore at h
  split at h
  · cases h; exact hk
  · split at h
    · cases h; exact hk
    · split at h
      · cases h; exact hk
      · split at h
        · cases h; exact hk
        · split at h
          · cases h; exact hk
          · split at h
            · simp only at h
              split at h
              · cases h; exact hk
              · split at h
                · next e m1 hm => cases h; exact mFindOrMake_rk _ _ _ _ _ hm hk
                · next u m1 hm => cases h; exact mFindOrMake_rk _ _ _ _ _ hm hk
            · split at h
              · cases h; exact hk
              · split at h
                · next e m1 hm => cases h; exact mFindOrMake_rk _ _ _ _ _ hm hk
                · next u m1 hm => cases h; exact mFindOrMake_rk _ _ _ _ _ hm hk

theorem mFindOrAdd_rk (i : Int) (nodes : List Int) (m : MddMgr) (r : Except Err Int) (m' : MddMgr)
    (h : mFindOrAdd i nodes m = (r, m')) (hk : RefKeys m) : RefKeys m' := by
  unfold mFindOrAdd at h
  split at h
  · cases h; exact hk
  · exact mFindOrAddCore_rk _ _ _ _ _ h hk

theorem mIteList_rk (rec : Int → Int → Int → MM Int)
    (hrec : ∀ g u v m r m', rec g u v m = (r, m') → RefKeys m → RefKeys m') :
    ∀ (gs us vs : List Int) (m : MddMgr) (r : Except Err (List Int)) (m' : MddMgr),
      mIteList rec gs us vs m = (r, m') → RefKeys m → RefKeys m' := by
  intro gs
  induction gs with
  | nil => intro us vs m r m' h hk; unfold mIteList at h; cases h; exact hk
  | cons g0 gs ih =>
    intro us vs m r m' h hk
    unfold mIteList at h
    simp only at h
    split at h
    · split at h
      · next e m1 h1 => cases h; exact hrec _ _ _ _ _ _ h1 hk
      · next w m1 h1 =>
        have hk1 := hrec _ _ _ _ _ _ h1 hk
        split at h
        · next e m2 h2 => cases h; exact ih _ _ _ _ _ h2 hk1
        · next ws m2 h2 => cases h; exact ih _ _ _ _ _ h2 hk1
    · cases h; exact hk

theorem mIteF_rk : ∀ (f : Nat) (g u v : Int) (m : MddMgr) (r : Except Err Int) (m' : MddMgr),
    mIteF f g u v m = (r, m') → RefKeys m → RefKeys m' := by
  intro f
  induction f with
  | zero => intro g u v m r m' h hk; unfold mIteF at h; cases h; exact hk
  | succ f ih =>
    intro g u v m r m' h hk
    unfold mIteF at h
    split at h
    · cases h; exact hk
    · split at h
      · cases h; exact hk
      · split at h
        · cases h; exact hk
        · split at h
          · cases h; exact hk
          · split at h
            · cases h; exact hk
            · split at h
              · cases h; exact hk
              · simp only at h
                split at h
                · cases h; exact hk
                · split at h
                  · cases h; exact hk
                  · split at h
                    · cases h; exact hk
                    · split at h
                      · next e m1 hl => cases h; exact mIteList_rk _ ih _ _ _ _ _ _ hl hk
                      · next nodes m1 hl =>
                        have hk1 := mIteList_rk _ ih _ _ _ _ _ _ hl hk
                        split at h
                        · next e m2 hf => cases h; exact mFindOrAddCore_rk _ _ _ _ _ hf hk1
                        · next w m2 hf =>
                          cases h
                          exact (mFindOrAddCore_rk _ _ _ _ _ hf hk1 : RefKeys m2)

theorem mIte_rk (g u v : Int) (m : MddMgr) (r : Except Err Int) (m' : MddMgr)
    (h : mIte g u v m = (r, m')) (hk : RefKeys m) : RefKeys m' := by
  unfold mIte at h
  exact mIteF_rk _ _ _ _ _ _ _ h hk

theorem mApply_rk (op : String) (u : Int) (v w : Option Int) (m : MddMgr) (r : Except Err Int)
    (m' : MddMgr) (h : mApply op u v w m = (r, m')) (hk : RefKeys m) : RefKeys m' := by
  unfold mApply at h
  split at h
  · cases h; exact hk
  · split at h
    · cases h; exact hk
    · split at h
      · cases h; exact hk
      · split at h
        · cases h; exact hk
        · split at h
          · cases h; exact hk
          · split at h
            · cases h; exact hk
            · split at h
              · cases h; exact hk
              · simp only at h
                split at h
                · cases h; exact hk
                · split at h
                  · exact mIte_rk _ _ _ _ _ _ h hk
                  · cases h; exact hk
            · cases h; exact hk
            · split at h
              · cases h; exact hk
              · cases h; exact hk
            · cases h; exact hk

theorem mGcKids_rk : ∀ (kids work : List Int) (m : MddMgr) (r : Except Err (List Int)) (m' : MddMgr),
    mGcKids kids work m = (r, m') → RefKeys m → RefKeys m' := by
  intro kids
  induction kids with
  | nil => intro work m r m' h hk; simp only [mGcKids] at h; cases h; exact hk
  | cons k rest ih =>
    intro work m r m' h hk
    unfold mGcKids at h
    split at h
    · next e m1 hd => cases h; exact mDecref_rk _ _ _ _ hd hk
    · next m1 hd =>
      have hk1 := mDecref_rk _ _ _ _ hd hk
      split at h
      · cases h; exact hk1
      · exact ih _ _ _ _ h hk1

/-- a successful iteration (between the pops of `_succ[u]` and `_ref[u]` the property does not
hold, so this is stated for the iteration as a whole) -/
theorem mGcStep_rk (u : Int) (work : List Int) (m : MddMgr) (w : List Int) (m' : MddMgr)
    (h : mGcStep u work m = (.ok w, m')) (hk : RefKeys m) : RefKeys m' := by
  unfold mGcStep at h
  split at h
  · cases h
  · split at h
    · cases h
    · split at h
      · cases h
      · next t ht =>
        simp only at h
        split at h
        · cases h
        · split at h
          · cases h
          · split at h
            · next e m4 hrel => cases h
            · next m4 hrel =>
              have hk4 : RefKeys m4 := by
                unfold mRelease at hrel
                split at hrel
                · cases hrel
                · split at hrel
                  · cases hrel
                  · split at hrel
                    · cases hrel
                    · split at hrel
                      · cases hrel
                      · cases hrel
                        intro k hkk
                        have hkk' : (m.ref.erase u.toNat).contains k = true := hkk
                        show k = 1 ∨ (m.tbl.succ.erase u.toNat).contains k = true
                        rw [TreeMap.contains_erase] at hkk' ⊢
                        simp only [Bool.and_eq_true] at hkk' ⊢
                        rcases hk k hkk'.2 with h1 | h1
                        · exact Or.inl h1
                        · exact Or.inr ⟨hkk'.1, h1⟩
              split at h
              · cases h
              · split at h
                · cases h
                · split at h
                  · cases h
                  · exact mGcKids_rk _ _ _ _ _ h hk4

theorem mGcLoop_rk : ∀ (f : Nat) (work : List Int) (m m' : MddMgr),
    mGcLoop f work m = (.ok (), m') → RefKeys m → RefKeys m' := by
  intro f
  induction f with
  | zero =>
    intro work m m' h hk
    cases work with
    | nil => simp only [mGcLoop] at h; cases h; exact hk
    | cons u rest => simp [mGcLoop] at h
  | succ f ih =>
    intro work m m' h hk
    cases work with
    | nil => simp only [mGcLoop] at h; cases h; exact hk
    | cons u rest =>
      simp only [mGcLoop] at h
      split at h
      · cases h
      · next work1 m1 hstep => exact ih _ _ _ h (mGcStep_rk _ _ _ _ _ hstep hk)

theorem mCollectGarbage_rk (roots : Option (List Int)) (m m' : MddMgr)
    (h : mCollectGarbage roots m = (.ok (), m')) (hk : RefKeys m) : RefKeys m' := by
  unfold mCollectGarbage at h
  dsimp only at h
  split at h
  · cases h
  · next unused m1 hun =>
    obtain ⟨hm1, _⟩ := mUnusedOf_spec _ m unused m1 hun
    subst hm1
    split at h
    · cases h
    · next m2 hloop =>
      cases h
      exact (mGcLoop_rk _ _ _ _ hloop hk : RefKeys m2)

theorem RefKeys.init (dv : List MVar) : RefKeys (MddMgr.new (some dv)) := by
  intro k hk
  left
  have : (MddMgr.new (some dv)).ref = (∅ : TreeMap Nat Nat).insert 1 0 := rfl
  rw [this, TreeMap.contains_insert] at hk
  have h1 : 1 = k := by simpa using hk
  exact h1.symm

end DD
