/-
  DDProofs.GcLoop — the collection loop (C06, part 3).

  * `GcRun m work mf` : the NONDETERMINISTIC loop of the Python code — the worklist is a
    `set`, `unused.pop()` may return any element.  The model's `gcLoop` (pops the head) is
    one such run (`gcLoop_run`).
  * `GcInv` : loop invariant (structure + exact counts + every worklist element has count 0).
  * `GcSub m0 m` : `m` is `m0` with some nodes removed (what a run does to the state).
  * every run preserves both (`GcRun.inv`, `GcRun.sub`), and when the worklist is
    complete (contains every count-0 node) no count-0 node survives (`GcRun.complete`).
-/
import DDProofs.GcStep
open Std

namespace DD

/-! ### consequences of one step -/

theorem GcStepPost.sub {m m' : Mgr} {ext : Nat → Nat} {u : Nat} {n : Nd} {work work' : List Nat}
    (h : GcStepPost m ext u n work m' work') : ∀ k x, m'.tbl.node? k = some x → m.tbl.node? k = some x := by
  intro k x hk
  by_cases hku : k = u
  · subst hku; rw [h.removed.old] at hk; cases hk
  · rw [h.removed.other k hku]; exact hk

theorem GcStepPost.ne_u {m m' : Mgr} {ext : Nat → Nat} {u : Nat} {n : Nd} {work work' : List Nat}
    (h : GcStepPost m ext u n work m' work') {k : Nat} {x : Nd} (hk : m'.tbl.node? k = some x) : k ≠ u := by
  intro hku; subst hku; rw [h.removed.old] at hk; cases hk

/-- counts before and after one step: each child of the removed node loses its edges -/
theorem GcStepPost.ref_rel {m m' : Mgr} {ext : Nat → Nat} {u : Nat} {n : Nd} {work work' : List Nat}
    (h : GcStepPost m ext u n work m' work') (hr : RefExact m ext) {k c' : Nat}
    (hc : m'.ref[k]? = some c') : m.ref[k]? = some (c' + edgeCount n k) := by
  have hmem' := (h.refExact.dom k).mp (by simp [hc])
  have hmem : (k : Int).natAbs = 1 ∨ (m.tbl.node? (k : Int).natAbs).isSome := by
    simp only [Int.natAbs_natCast]
    rcases hmem' with h1 | h1
    · exact Or.inl h1
    · obtain ⟨x, hx⟩ := Option.isSome_iff_exists.mp h1
      exact Or.inr (by simp [h.sub k x hx])
  have hg := hr.get (u := (k : Int)) hmem
  simp only [Int.natAbs_natCast] at hg
  rw [hg]
  have h1 := h.refExact.cnt k c' hc
  rw [indeg_removed h.removed k] at h1
  have := edgeCount_le_indeg h.removed.new k
  congr 1; omega

theorem GcStepPost.ref_rel' {m m' : Mgr} {ext : Nat → Nat} {u : Nat} {n : Nd} {work work' : List Nat}
    (h : GcStepPost m ext u n work m' work') {k c : Nat}
    (hc : m.ref[k]? = some c) (hku : k ≠ u) (hr : RefExact m ext) :
    m'.ref[k]? = some (c - edgeCount n k) := by
  have hmem := (hr.dom k).mp (by simp [hc])
  have hmem' : (k : Int).natAbs = 1 ∨ (m'.tbl.node? (k : Int).natAbs).isSome := by
    simp only [Int.natAbs_natCast]
    rcases hmem with h1 | h1
    · exact Or.inl h1
    · exact Or.inr (by rw [← h.removed.other k hku]; exact h1)
  have hg := h.refExact.get (u := (k : Int)) hmem'
  simp only [Int.natAbs_natCast] at hg
  rw [hg, indeg_removed h.removed k]
  have := hr.cnt k c hc
  have := edgeCount_le_indeg h.removed.new k
  congr 1; omega

/-- a node with count 0 that is not popped keeps count 0 -/
theorem GcStepPost.zero_stays {m m' : Mgr} {ext : Nat → Nat} {u : Nat} {n : Nd} {work work' : List Nat}
    (h : GcStepPost m ext u n work m' work') (hr : RefExact m ext) {k : Nat}
    (hc : m.ref[k]? = some 0) (hku : k ≠ u) : m'.ref[k]? = some 0 := by
  have := h.ref_rel' hc hku hr
  simpa using this

/-! ### loop invariant -/

structure GcInv (m : Mgr) (ext : Nat → Nat) (work : List Nat) : Prop where
  invS : InvS m
  refExact : RefExact m ext
  zero : ∀ w ∈ work, m.ref[w]? = some 0
  nodup : work.Nodup

/-- the worklist contains every node whose count is 0 (full collection) -/
def GcComplete (m : Mgr) (work : List Nat) : Prop := ∀ k, m.ref[k]? = some 0 → k ∈ work

theorem GcInv.step {m : Mgr} {ext : Nat → Nat} {work : List Nat} (hi : GcInv m ext work)
    {u : Nat} (hu : u ∈ work) :
    ∃ n m' work', m.tbl.node? u = some n ∧ gcStep u (work.erase u) m = (.ok work', m') ∧
      GcStepPost m ext u n (work.erase u) m' work' ∧ GcInv m' ext work' ∧
      (GcComplete m work → GcComplete m' work') := by
  obtain ⟨n, m', work', hn, hrun, hp⟩ := gcStep_spec m ext u (work.erase u) hi.invS hi.refExact (hi.zero u hu)
  refine ⟨n, m', work', hn, hrun, hp, ⟨hp.invS, hp.refExact, ?_, hp.work_nodup (hi.nodup.erase u)⟩, ?_⟩
  · intro w hw
    rcases (hp.work_mem w).mp hw with h | ⟨-, -, h⟩
    · have := (hi.nodup.mem_erase_iff).mp h
      exact hp.zero_stays hi.refExact (hi.zero w this.2) this.1
    · exact h
  · intro hc k hk
    rw [hp.work_mem]
    by_cases hch : k = n.lo.natAbs ∨ k = n.hi.natAbs
    · have hk1 : k ≠ 1 := by
        intro h1; subst h1
        have := hp.refExact.cnt 1 0 hk
        simp at this
      exact Or.inr ⟨hch, hk1, hk⟩
    · left
      have h0 := hp.ref_rel hi.refExact hk
      have he : edgeCount n k = 0 := by
        simp only [edgeCount]
        have h1 : ¬ n.lo.natAbs = k := fun h => hch (Or.inl h.symm)
        have h2 : ¬ n.hi.natAbs = k := fun h => hch (Or.inr h.symm)
        simp [h1, h2]
      rw [he] at h0
      have hku : k ≠ u := by
        intro hku; subst hku
        have := (hp.refExact.dom k).mp (by simp [hk])
        rcases this with h1 | h1
        · subst h1
          have := hp.refExact.cnt 1 0 hk
          simp at this
        · rw [hp.removed.old] at h1; simp at h1
      exact (hi.nodup.mem_erase_iff).mpr ⟨hku, hc k h0⟩

/-! ### the state after removing some nodes -/

/-- `m` is `m0` with some nodes removed by collection steps -/
structure GcSub (m0 m : Mgr) : Prop where
  sub : ∀ k x, m.tbl.node? k = some x → m0.tbl.node? k = some x
  vars : m.tbl.vars = m0.tbl.vars
  l2v : m.tbl.l2v = m0.tbl.l2v
  lastLen : m.lastLen = m0.lastLen
  ctx : m.ctx = m0.ctx
  fireIn : m.fireIn = m0.fireIn
  sched : m.sched = m0.sched
  roots : m.roots = m0.roots
  /-- unique-table entries of surviving nodes (and junk keys) are untouched -/
  predKeep : ∀ key, (∀ k x, m0.tbl.node? k = some x → x.key = key → (m.tbl.node? k).isSome) →
    m.pred[key]? = m0.pred[key]?
  /-- unique-table entries of removed nodes are gone -/
  predGone : ∀ k x, m0.tbl.node? k = some x → m.tbl.node? k = none → m.pred[x.key]? = none
  minLe : m.minFree ≤ m0.minFree
  minRemoved : ∀ k x, m0.tbl.node? k = some x → m.tbl.node? k = none → m.minFree ≤ k
  minIs : m.minFree = m0.minFree ∨ (m0.tbl.node? m.minFree).isSome
  size : m.tbl.succ.size ≤ m0.tbl.succ.size

theorem GcSub.refl (m : Mgr) : GcSub m m := by
  refine ⟨fun _ _ h => h, rfl, rfl, rfl, rfl, rfl, rfl, rfl, fun _ _ => rfl, ?_, Nat.le_refl _, ?_,
    Or.inl rfl, Nat.le_refl _⟩
  · intro k x h1 h2; rw [h1] at h2; cases h2
  · intro k x h1 h2; rw [h1] at h2; cases h2

theorem GcSub.step {m0 m m' : Mgr} {ext : Nat → Nat} {u : Nat} {n : Nd} {work work' : List Nat}
    (hs : GcSub m0 m) (hp : GcStepPost m ext u n work m' work') : GcSub m0 m' := by
  have hn0 : m0.tbl.node? u = some n := hs.sub _ _ hp.removed.new
  refine ⟨fun k x h => hs.sub k x (hp.sub k x h), hp.vars.trans hs.vars, hp.l2v.trans hs.l2v,
    hp.lastLen.trans hs.lastLen, hp.ctx.trans hs.ctx, hp.fireIn.trans hs.fireIn,
    hp.sched.trans hs.sched, hp.roots.trans hs.roots, ?_, ?_, ?_, ?_, ?_, ?_⟩
  · intro key hall
    rw [hp.pred key]
    have hne : key ≠ n.key := by
      intro he
      have := hall u n hn0 he.symm
      rw [hp.removed.old] at this; simp at this
    rw [if_neg hne]
    apply hs.predKeep key
    intro k x hk hx
    obtain ⟨y, hy⟩ := Option.isSome_iff_exists.mp (hall k x hk hx)
    simp [hp.sub k y hy]
  · intro k x hk hk'
    rw [hp.pred]
    by_cases he : x.key = n.key
    · simp [he]
    · rw [if_neg he]
      cases hm : m.tbl.node? k with
      | none => exact hs.predGone k x hk hm
      | some y =>
        exfalso
        have hy : y = x := by have := hs.sub k y hm; rw [hk] at this; cases this; rfl
        subst hy
        by_cases hku : k = u
        · subst hku
          rw [hp.removed.new] at hm; cases hm; exact he rfl
        · rw [hp.removed.other k hku] at hm; rw [hm] at hk'; cases hk'
  · rw [hp.minFree]; have := hs.minLe; omega
  · intro k x hk hk'
    rw [hp.minFree]
    cases hm : m.tbl.node? k with
    | none => have := hs.minRemoved k x hk hm; omega
    | some y =>
      by_cases hku : k = u
      · omega
      · exfalso; rw [hp.removed.other k hku] at hm; rw [hm] at hk'; cases hk'
  · rw [hp.minFree]
    by_cases h : u ≤ m.minFree
    · rw [Nat.min_eq_left h]; right; simp [hn0]
    · rw [Nat.min_eq_right (by omega)]; exact hs.minIs
  · have := hp.size; have := hs.size; omega

theorem GcSub.trans {a b c : Mgr} (h1 : GcSub a b) (h2 : GcSub b c) (ha : InvS a) : GcSub a c := by
  refine ⟨fun k x h => h1.sub k x (h2.sub k x h), h2.vars.trans h1.vars, h2.l2v.trans h1.l2v,
    h2.lastLen.trans h1.lastLen, h2.ctx.trans h1.ctx, h2.fireIn.trans h1.fireIn,
    h2.sched.trans h1.sched, h2.roots.trans h1.roots, ?_, ?_, ?_, ?_, ?_, ?_⟩
  · intro key hall
    rw [h2.predKeep key, h1.predKeep key]
    · intro k x hk hx
      obtain ⟨y, hy⟩ := Option.isSome_iff_exists.mp (hall k x hk hx)
      simp [h2.sub k y hy]
    · intro k x hk hx
      exact hall k x (h1.sub k x hk) hx
  · intro k x hk hk'
    cases hb : b.tbl.node? k with
    | none =>
      -- removed in the first phase: no surviving node of `b` has this key
      rw [h2.predKeep x.key, h1.predGone k x hk hb]
      intro k2 y hk2 hy
      exfalso
      have hy' : y = x := Nd.key_inj hy
      subst hy'
      have := ha.wf.unique _ _ _ (h1.sub k2 y hk2) hk
      subst this
      rw [hb] at hk2; cases hk2
    | some y =>
      have hy : y = x := by have := h1.sub k y hb; rw [hk] at this; cases this; rfl
      subst hy
      exact h2.predGone k y hb hk'
  · have := h1.minLe; have := h2.minLe; omega
  · intro k x hk hk'
    cases hb : b.tbl.node? k with
    | none => have := h1.minRemoved k x hk hb; have := h2.minLe; omega
    | some y => exact h2.minRemoved k y hb hk'
  · rcases h2.minIs with h | h
    · rw [h]; exact h1.minIs
    · right
      obtain ⟨y, hy⟩ := Option.isSome_iff_exists.mp h
      simp [h1.sub _ _ hy]
  · have := h1.size; have := h2.size; omega


/-! ### runs of the loop under an arbitrary pop order -/

/-- the `while unused:` loop where `unused.pop()` may return ANY element of the set -/
inductive GcRun : Mgr → List Nat → Mgr → Prop
  | done (m : Mgr) : GcRun m [] m
  | step {m m' mf : Mgr} {work work' : List Nat} {u : Nat} :
      u ∈ work → gcStep u (work.erase u) m = (.ok work', m') → GcRun m' work' mf → GcRun m work mf

/-- every run keeps the invariant, only removes nodes, and (when started with a complete
worklist) leaves no node with count 0 -/
theorem GcRun.spec {m mf : Mgr} {work : List Nat} (hrun : GcRun m work mf) :
    ∀ {ext : Nat → Nat}, GcInv m ext work →
      GcInv mf ext [] ∧ GcSub m mf ∧ mf.cache = m.cache ∧ (GcComplete m work → ∀ k : Nat, mf.ref[k]? ≠ some 0) := by
  induction hrun with
  | done m =>
    intro ext hi
    exact ⟨hi, GcSub.refl m, rfl, fun hc k hk => by simpa using hc k hk⟩
  | @step m m' mf work work' u hu hstep _ ih =>
    intro ext hi
    obtain ⟨n, m1, work1, hn, hrun1, hp, hi1, hc1⟩ := hi.step hu
    rw [hstep] at hrun1
    cases hrun1
    obtain ⟨h1, h2, hca, h3⟩ := ih hi1
    refine ⟨h1, ?_, hca.trans hp.cache, fun hc => h3 (hc1 hc)⟩
    -- compose: m ⊇ m' ⊇ mf
    have hs1 : GcSub m m' := (GcSub.refl m).step hp
    exact GcSub.trans hs1 h2 hi.invS
/-- the model's head-popping loop is one particular run, and the fuel
`len(_succ)` (the model passes one more) is enough: every step removes a node -/
theorem gcLoop_run : ∀ (f : Nat) (m : Mgr) (ext : Nat → Nat) (work : List Nat), GcInv m ext work →
    m.tbl.succ.size ≤ f → ∃ mf, gcLoop f work m = (.ok (), mf) ∧ GcRun m work mf := by
  intro f
  induction f with
  | zero =>
    intro m ext work hi hf
    cases work with
    | nil => exact ⟨m, rfl, GcRun.done m⟩
    | cons u rest =>
      exfalso
      obtain ⟨n, m', work', -, -, hp, -, -⟩ := hi.step (u := u) (by simp)
      have := hp.size; omega
  | succ f ih =>
    intro m ext work hi hf
    cases work with
    | nil => exact ⟨m, rfl, GcRun.done m⟩
    | cons u rest =>
      obtain ⟨n, m', work', -, hrun, hp, hi', -⟩ := hi.step (u := u) (by simp)
      rw [List.erase_cons_head] at hrun
      obtain ⟨mf, hl, hr⟩ := ih m' ext work' hi' (by have := hp.size; omega)
      refine ⟨mf, ?_, GcRun.step (u := u) (by simp) (by rw [List.erase_cons_head]; exact hrun) hr⟩
      show (gcStep u rest >>= fun work => gcLoop f work) m = _
      simp only [bind, M.bind', hrun]
      exact hl

/-- any prefix of a run (intermediate states of the loop under an arbitrary pop order) -/
inductive GcSteps : Mgr → List Nat → Mgr → List Nat → Prop
  | refl (m : Mgr) (work : List Nat) : GcSteps m work m work
  | step {m m' m'' : Mgr} {work work' work'' : List Nat} {u : Nat} :
      u ∈ work → gcStep u (work.erase u) m = (.ok work', m') → GcSteps m' work' m'' work'' →
      GcSteps m work m'' work''

/-- at EVERY intermediate state of the loop the invariant and exact counts hold
(with the same ledger `ext`) and only nodes were removed -/
theorem GcSteps.spec {m m' : Mgr} {work work' : List Nat} (hrun : GcSteps m work m' work') :
    ∀ {ext : Nat → Nat}, GcInv m ext work → GcInv m' ext work' ∧ GcSub m m' := by
  induction hrun with
  | refl m work => intro ext hi; exact ⟨hi, GcSub.refl m⟩
  | @step m m1 m2 work work1 work2 u hu hstep _ ih =>
    intro ext hi
    obtain ⟨n, m1', work1', hn, hrun1, hp, hi1, -⟩ := hi.step hu
    rw [hstep] at hrun1
    cases hrun1
    obtain ⟨h1, h2⟩ := ih hi1
    exact ⟨h1, GcSub.trans ((GcSub.refl m).step hp) h2 hi.invS⟩

theorem GcRun.toSteps {m mf : Mgr} {work : List Nat} (h : GcRun m work mf) : GcSteps m work mf [] := by
  induction h with
  | done m => exact GcSteps.refl m []
  | step hu hs _ ih => exact GcSteps.step hu hs ih

end DD
