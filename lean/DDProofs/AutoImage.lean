/-
  DDProofs.AutoImage — `image` / `preimage` as operations on the manager, reordering not
  enabled, ARBITRARY arguments: every mutation inside `_image` is `find_or_add(j, -1, 1)` or a
  public `ite`, both total; so the invariant, exact counts and every existing node are kept
  whether the call returns or raises.  (What the result DENOTES is C13; the findings F5/F5b
  about `preimage` concern the denotation, not the frame proved here.)
-/
import DDProofs.AutoCore
open Std

namespace DD

theorem topCofactorI_noNR (t : Tbl) (u : Int) (i : Int) : topCofactorI t u i ≠ .error .needsReordering := by
  unfold topCofactorI
  split
  · split
    · simp
    · split <;> simp
  · exact topCofactor_noNR t u _

theorem findOrAddNonInt_off (m : Mgr) (ho : m.lastLen = none) : findOrAddNonInt m = (.error .type, m) := by
  unfold findOrAddNonInt
  by_cases hc : m.ctx = true
  · simp only [hc, if_true, requestReordering_off m ho]
  · simp only [hc, Bool.false_eq_true, if_false]

/-- `_image` on arbitrary arguments: `Kept` and `Lite` -/
theorem imageF_kl (ext : Nat → Nat) (umap vmap : Option (List (Int × Int))) (ubad vbad : List Int)
    (Q : List Nat) (fa : Bool) :
    ∀ (f : Nat) (u v : Int) (cache : HashMap (Int × Int) Int) (m : Mgr), Inv m → Lite ext m →
      Kept m (imageF umap vmap ubad vbad Q fa f u v cache m).2 ∧
      LiteOut ext (imageF umap vmap ubad vbad Q fa f u v cache m) := by
  intro f
  induction f with
  | zero =>
    intro u v cache m hI hL
    exact ⟨Kept.refl hI, hL, by simp [imageF]⟩
  | succ f ih =>
    intro u v cache m hI hL
    have base : ∀ {β : Type} (r : Except Err β), r ≠ .error .needsReordering →
        Kept m ((r, m) : Except Err β × Mgr).2 ∧ LiteOut ext ((r, m) : Except Err β × Mgr) :=
      fun r hr => ⟨Kept.refl hI, hL, hr⟩
    unfold imageF
    split
    · exact base _ (by simp)
    split
    · exact base _ (by simp)
    split
    · exact base _ (by simp)
    split
    · exact base _ (by simp)
    split
    · exact base _ (by simp)
    split
    · exact base _ (by simp)
    dsimp only
    split
    · next e heq => exact base _ (fun h => topCofactorI_noNR _ _ _ (by rw [heq]; simpa using h))
    split
    · next e heq => exact base _ (fun h => topCofactorI_noNR _ _ _ (by rw [heq]; simpa using h))
    next iu _ _ jv _ _ _ u0 u1 _ _ v0 v1 _ =>
    obtain ⟨k1, l1⟩ := ih u0 v0 cache m hI hL
    generalize imageF umap vmap ubad vbad Q fa f u0 v0 cache m = res1 at k1 l1 ⊢
    obtain ⟨r1, m1⟩ := res1
    cases r1 with
    | error e => exact ⟨k1, l1⟩
    | ok pc =>
      obtain ⟨p, c1⟩ := pc
      simp only
      obtain ⟨k2, l2⟩ := ih u1 v1 c1 m1 k1.inv l1.1
      generalize imageF umap vmap ubad vbad Q fa f u1 v1 c1 m1 = res2 at k2 l2 ⊢
      obtain ⟨r2, m2⟩ := res2
      cases r2 with
      | error e => exact ⟨k1.trans k2, l2⟩
      | ok qc =>
        obtain ⟨q, c2⟩ := qc
        simp only
        have k12 : Kept m m2 := k1.trans k2
        have hI2 := k2.inv
        have hL2 := l2.1
        -- the last step: quantify (an `ite`) or rebuild on the renamed variable
        have h3 : ∀ (z : Int), Kept m2
            (if 0 ≤ z ∧ Q.contains z.toNat = true then
              (if fa then ite p q (-1) m2 else ite p 1 q m2)
            else
              match (if ubad.contains z then findOrAddNonInt m2
                  else findOrAdd (mapLvl umap z) (-1) 1 m2) with
              | (.error e, m3) => (.error e, m3)
              | (.ok g, m3) => ite g q p m3).2 ∧
          LiteOut ext
            (if 0 ≤ z ∧ Q.contains z.toNat = true then
              (if fa then ite p q (-1) m2 else ite p 1 q m2)
            else
              match (if ubad.contains z then findOrAddNonInt m2
                  else findOrAdd (mapLvl umap z) (-1) 1 m2) with
              | (.error e, m3) => (.error e, m3)
              | (.ok g, m3) => ite g q p m3) := by
          intro z
          split
          · split
            · exact ⟨ite_total m2 hI2 hL2.off _ _ _, ite_lite ext _ _ _ m2 hL2⟩
            · exact ⟨ite_total m2 hI2 hL2.off _ _ _, ite_lite ext _ _ _ m2 hL2⟩
          · split
            · next e m3 heq =>
              split at heq
              · rw [findOrAddNonInt_off m2 hL2.off] at heq
                cases heq
                exact ⟨Kept.refl hI2, hL2, by simp⟩
              · have kk := findOrAdd_kept m2 hI2 hL2.off (mapLvl umap z) (-1) 1 (fun _ => foaGuard_var m2 _)
                have ll := findOrAdd_lite ext m2 hL2 (mapLvl umap z) (-1) 1
                rw [heq] at kk ll
                exact ⟨kk, ll⟩
            · next g m3 heq =>
              split at heq
              · rw [findOrAddNonInt_off m2 hL2.off] at heq
                cases heq
              · have kk := findOrAdd_kept m2 hI2 hL2.off (mapLvl umap z) (-1) 1 (fun _ => foaGuard_var m2 _)
                have ll := findOrAdd_lite ext m2 hL2 (mapLvl umap z) (-1) 1
                rw [heq] at kk ll
                exact ⟨kk.trans (ite_total m3 kk.inv ll.1.off _ _ _), ite_lite ext _ _ _ m3 ll.1⟩
        obtain ⟨k3, l3⟩ := h3 (min (iu : Int) (mapLvl vmap jv))
        generalize (if 0 ≤ min (iu : Int) (mapLvl vmap jv) ∧ Q.contains (min (iu : Int) (mapLvl vmap jv)).toNat = true then
              (if fa then ite p q (-1) m2 else ite p 1 q m2)
            else
              match (if ubad.contains (min (iu : Int) (mapLvl vmap jv)) then findOrAddNonInt m2
                  else findOrAdd (mapLvl umap (min (iu : Int) (mapLvl vmap jv))) (-1) 1 m2) with
              | (.error e, m3) => (.error e, m3)
              | (.ok g, m3) => ite g q p m3) = res3 at k3 l3 ⊢
        obtain ⟨r3, m3⟩ := res3
        cases r3 with
        | error e => exact ⟨k12.trans k3, l3.reErr⟩
        | ok r => exact ⟨k12.trans k3, l3.1, by simp⟩

theorem varAtLevel_read (i : Int) (m : Mgr) :
    (varAtLevel i m).2 = m ∧ (varAtLevel i m).1 ≠ .error .needsReordering := by
  unfold varAtLevel
  simp only [bind, M.bind', M.get]
  split
  · exact ⟨rfl, by simp [M.throw]⟩
  · unfold M.ofOption
    cases m.tbl.l2v[i.toNat]? with
    | none => exact ⟨rfl, by simp [M.throw]⟩
    | some v => exact ⟨rfl, by simp [pure, M.pure']⟩

theorem adjacentWarn_read : ∀ (rn : List (Key × Key)) (m : Mgr),
    (adjacentWarn rn m).2 = m ∧ (adjacentWarn rn m).1 ≠ .error .needsReordering
  | [], m => ⟨rfl, by simp [adjacentWarn]⟩
  | (k, v) :: rest, m => by
    unfold adjacentWarn
    cases k with
    | name s => exact ⟨rfl, by simp⟩
    | lvl a =>
      cases v with
      | name s => exact ⟨rfl, by simp⟩
      | lvl b =>
        simp only
        split
        · exact adjacentWarn_read rest m
        · obtain ⟨h1, n1⟩ := varAtLevel_read a m
          generalize varAtLevel a m = r1 at h1 n1
          obtain ⟨x1, m1⟩ := r1
          simp only at h1
          subst h1
          cases x1 with
          | error e => exact ⟨rfl, by simpa using n1⟩
          | ok _ =>
            simp only
            obtain ⟨h2, n2⟩ := varAtLevel_read b m1
            generalize varAtLevel b m1 = r2 at h2 n2
            obtain ⟨x2, m2⟩ := r2
            simp only at h2
            subst h2
            cases x2 with
            | error e => exact ⟨rfl, by simpa using n2⟩
            | ok _ => exact ⟨rfl, by simp⟩

theorem assertValidRename_read (rn : List (Key × Key)) (m : Mgr) :
    (assertValidRename rn m).2 = m ∧ (assertValidRename rn m).1 ≠ .error .needsReordering := by
  unfold assertValidRename
  split
  · exact ⟨rfl, by simp⟩
  · obtain ⟨h1, n1⟩ := varAtLevel_read 0 m
    generalize varAtLevel 0 m = r1 at h1 n1
    obtain ⟨x1, m1⟩ := r1
    simp only at h1
    subst h1
    cases x1 with
    | error e => exact ⟨rfl, by simpa using n1⟩
    | ok _ =>
      simp only
      split
      · exact ⟨rfl, by simp⟩
      · exact ⟨rfl, by simp⟩

theorem supportF_noNR_auto : ∀ (f : Nat) (t : Tbl) (u : Int) (s : List Nat × List Nat),
    supportF f t u s ≠ .error .needsReordering := by
  intro f
  induction f with
  | zero => intro t u s; obtain ⟨l, n⟩ := s; simp [supportF]
  | succ f ih =>
    intro t u s
    obtain ⟨l, n⟩ := s
    unfold supportF
    split
    · simp
    dsimp only
    split
    · simp
    split
    · simp
    split
    · simp
    split
    · simp
    split
    · next e heq => intro h; cases h; exact ih _ _ _ heq
    · exact ih _ _ _

theorem supportLevels_noNR (t : Tbl) (u : Int) : supportLevels t u ≠ .error .needsReordering := by
  unfold supportLevels
  split
  · next e heq => intro h; cases h; exact supportF_noNR_auto _ _ _ _ heq
  · simp

/-- the decorated body `_image_of`: ANY arguments, reordering not enabled -/
theorem imageBody_kl (ext : Nat → Nat) (t s : Int) (rn : List (Key × Key)) (q : List Key) (fa : Bool)
    (m : Mgr) (hI : Inv m) (hL : Lite ext m) :
    Kept m (imageBody t s rn q fa m).2 ∧ LiteOut ext (imageBody t s rn q fa m) := by
  have base : ∀ (r : Except Err Int), r ≠ .error .needsReordering →
      Kept m ((r, m) : Except Err Int × Mgr).2 ∧
      LiteOut ext ((r, m) : Except Err Int × Mgr) := fun _ hr => ⟨Kept.refl hI, hL, hr⟩
  unfold imageBody
  cases hq : mapToLevelE m.tbl q with
  | error e => exact base _ (fun h => mapToLevelE_noNR m.tbl q (by rw [hq]; simpa using h))
  | ok lv =>
    simp only
    split
    · exact base _ (by simp)
    obtain ⟨ha, hn⟩ := adjacentWarn_read (resolveRename m.tbl rn) m
    generalize adjacentWarn (resolveRename m.tbl rn) m = r1 at ha hn
    obtain ⟨x1, m1⟩ := r1
    simp only at ha
    subst ha
    cases x1 with
    | error e => exact base _ (by simpa using hn)
    | ok _ =>
      simp only
      split
      · next e heq => exact base _ (fun h => supportLevels_noNR _ _ (by rw [heq]; simpa using h))
      split
      · next e heq => exact base _ (fun h => supportLevels_noNR _ _ (by rw [heq]; simpa using h))
      split
      · exact base _ (by simp)
      obtain ⟨k, l⟩ := imageF_kl ext (some (intPairs (resolveRename m1.tbl rn))) none
        (badKeys (resolveRename m1.tbl rn)) [] lv fa (2 * m1.nvars + 4) t s {} m1 hI hL
      generalize imageF (some (intPairs (resolveRename m1.tbl rn))) none
        (badKeys (resolveRename m1.tbl rn)) [] lv fa (2 * m1.nvars + 4) t s {} m1 = res at k l ⊢
      obtain ⟨r, m2⟩ := res
      cases r with
      | error e => simp only; exact ⟨k, l.reErr⟩
      | ok rc => simp only; exact ⟨k, l.1, by simp⟩

/-- `_copy_bdd` as `_preimage_of` calls it: ANY node, ANY level map (values that are no levels,
undeclared names), any memo -/
theorem copyBddK_kl (ext : Nat → Nat) (lm : List (Nat × Key)) :
    ∀ (fu : Nat) (u : Int) (cache : HashMap Nat Int) (m : Mgr), Inv m → Lite ext m →
      Kept m (copyBddK lm fu u cache m).2 ∧ LiteOut ext (copyBddK lm fu u cache m) := by
  intro fu
  induction fu with
  | zero =>
    intro u cache m hI hL
    exact ⟨Kept.refl hI, hL, by simp [copyBddK]⟩
  | succ fu ih =>
    intro u cache m hI hL
    have base : ∀ {β : Type} (r : Except Err β), r ≠ .error .needsReordering →
        Kept m ((r, m) : Except Err β × Mgr).2 ∧ LiteOut ext ((r, m) : Except Err β × Mgr) :=
      fun r hr => ⟨Kept.refl hI, hL, hr⟩
    unfold copyBddK
    split
    · exact base _ (by simp)
    split
    · split
      · exact base _ (by simp)
      · exact base _ (by simp)
    split
    · exact base _ (by simp)
    split
    · exact base _ (by simp)
    next n _ _ =>
    obtain ⟨k1, l1⟩ := ih n.lo cache m hI hL
    generalize copyBddK lm fu n.lo cache m = res1 at k1 l1 ⊢
    obtain ⟨r1, m1⟩ := res1
    cases r1 with
    | error e => exact ⟨k1, l1.reErr⟩
    | ok pc =>
      obtain ⟨p, c1⟩ := pc
      simp only
      obtain ⟨k2, l2⟩ := ih n.hi c1 m1 k1.inv l1.1
      generalize copyBddK lm fu n.hi c1 m1 = res2 at k2 l2 ⊢
      obtain ⟨r2, m2⟩ := res2
      cases r2 with
      | error e => exact ⟨k1.trans k2, l2.reErr⟩
      | ok qc =>
        obtain ⟨q, c2⟩ := qc
        simp only
        have k12 : Kept m m2 := k1.trans k2
        have hI2 := k2.inv
        have hL2 := l2.1
        have base2 : ∀ {β : Type} (r : Except Err β), r ≠ .error .needsReordering →
            Kept m ((r, m2) : Except Err β × Mgr).2 ∧ LiteOut ext ((r, m2) : Except Err β × Mgr) :=
          fun r hr => ⟨k12, hL2, hr⟩
        split
        · exact base2 _ (by simp)
        split
        · exact base2 _ (by simp)
        split
        · exact base2 _ (by simp)
        next jnew _ =>
        cases jnew with
        | name nm =>
          simp only
          rw [findOrAddNonInt_off m2 hL2.off]
          exact base2 _ (by simp)
        | lvl i =>
          simp only
          have k3 := findOrAdd_kept m2 hI2 hL2.off i (-1) 1 (fun _ => foaGuard_var m2 _)
          have l3 := findOrAdd_lite ext m2 hL2 i (-1) 1
          generalize findOrAdd i (-1) 1 m2 = res3 at k3 l3 ⊢
          obtain ⟨r3, m3⟩ := res3
          cases r3 with
          | error e => exact ⟨k12.trans k3, l3.reErr⟩
          | ok g =>
            simp only
            have k4 := ite_total m3 k3.inv l3.1.off g q p
            have l4 := ite_lite ext g q p m3 l3.1
            generalize ite g q p m3 = res4 at k4 l4 ⊢
            obtain ⟨r4, m4⟩ := res4
            cases r4 with
            | error e => exact ⟨(k12.trans k3).trans k4, l4.reErr⟩
            | ok r =>
              simp only
              split
              · exact ⟨(k12.trans k3).trans k4, l4.1, by simp⟩
              · exact ⟨(k12.trans k3).trans k4, l4.1, by simp⟩

/-- the branch of `_preimage_of` for partners that are not neighbours: ANY arguments -/
theorem preimageFallback_kl (ext : Nat → Nat) (t s : Int) (rn : List (Key × Key)) (q : List Nat)
    (fa : Bool) (m : Mgr) (hI : Inv m) (hL : Lite ext m) :
    Kept m (preimageFallback t s rn q fa m).2 ∧ LiteOut ext (preimageFallback t s rn q fa m) := by
  unfold preimageFallback
  obtain ⟨k1, l1⟩ := copyBddK_kl ext (preimageLevelMap m.nvars rn) (m.nvars + 2) s {} m hI hL
  generalize copyBddK (preimageLevelMap m.nvars rn) (m.nvars + 2) s {} m = res1 at k1 l1 ⊢
  obtain ⟨r1, m1⟩ := res1
  cases r1 with
  | error e => exact ⟨k1, l1.reErr⟩
  | ok rc =>
    obtain ⟨r, c⟩ := rc
    simp only
    have k2 := ite_total m1 k1.inv l1.1.off t r (-1)
    have l2 := ite_lite ext t r (-1) m1 l1.1
    generalize ite t r (-1) m1 = res2 at k2 l2 ⊢
    obtain ⟨r2, m2⟩ := res2
    cases r2 with
    | error e => exact ⟨k1.trans k2, l2.reErr⟩
    | ok r2 =>
      simp only
      exact ⟨(k1.trans k2).trans (quantify_total m2 ext k2.inv l2.1.exact l2.1.off r2 _ fa),
        quantify_lite ext r2 _ fa m2 l2.1⟩

/-- the decorated body `_preimage_of`: ANY arguments, reordering not enabled -/
theorem preimageBody_kl (ext : Nat → Nat) (t s : Int) (rn : List (Key × Key)) (q : List Key)
    (fa : Bool) (m : Mgr) (hI : Inv m) (hL : Lite ext m) :
    Kept m (preimageBody t s rn q fa m).2 ∧ LiteOut ext (preimageBody t s rn q fa m) := by
  have base : ∀ (r : Except Err Int), r ≠ .error .needsReordering →
      Kept m ((r, m) : Except Err Int × Mgr).2 ∧
      LiteOut ext ((r, m) : Except Err Int × Mgr) := fun _ hr => ⟨Kept.refl hI, hL, hr⟩
  unfold preimageBody
  cases hq : mapToLevelE m.tbl q with
  | error e => exact base _ (fun h => mapToLevelE_noNR m.tbl q (by rw [hq]; simpa using h))
  | ok lv =>
    simp only
    obtain ⟨ha, hn⟩ := assertValidRename_read (resolveRename m.tbl rn) m
    generalize assertValidRename (resolveRename m.tbl rn) m = r1 at ha hn
    obtain ⟨x1, m1⟩ := r1
    simp only at ha
    subst ha
    cases x1 with
    | error e => exact base _ (by simpa using hn)
    | ok _ =>
      simp only
      split
      · next e heq =>
        refine base _ (fun h => ?_)
        simp only [Prod.mk.injEq, Except.error.injEq, and_true] at h
        subst h
        unfold preimageFused at heq
        split at heq
        · cases heq
        split at heq
        · cases heq
        split at heq
        · next e' hs =>
          simp only [Except.error.injEq] at heq
          subst heq
          exact supportLevels_noNR _ _ hs
        · cases heq
      split
      · obtain ⟨k, l⟩ := imageF_kl ext none (some (intPairs (resolveRename m1.tbl rn))) []
          (badKeys (resolveRename m1.tbl rn)) lv fa (2 * m1.nvars + 4) t s {} m1 hI hL
        generalize imageF none (some (intPairs (resolveRename m1.tbl rn))) []
          (badKeys (resolveRename m1.tbl rn)) lv fa (2 * m1.nvars + 4) t s {} m1 = res at k l ⊢
        obtain ⟨r, m2⟩ := res
        cases r with
        | error e =>
          simp only
          refine ⟨k, l.1, ?_⟩
          have := l.2
          by_cases hf : e = .fuel
          · simp [hf]
          · simpa [hf] using this
        | ok rc => simp only; exact ⟨k, l.1, by simp⟩
      · exact preimageFallback_kl ext t s _ lv fa m1 hI hL

/-- the decorator around a body that keeps the invariant and never raises the signal (reordering
not enabled) -/
theorem tryToReorder_kl {α : Type} (ext : Nat → Nat) (f : M α) (m : Mgr)
    (h : Kept { m with ctx := true } (f { m with ctx := true }).2 ∧
      LiteOut ext (f { m with ctx := true })) :
    Kept m (tryToReorder f m).2 ∧ Lite ext (tryToReorder f m).2 := by
  obtain ⟨k, l⟩ := h
  generalize hres : f { m with ctx := true } = res at k l
  obtain ⟨r, m1⟩ := res
  have hk : Kept m { m1 with ctx := m.ctx } := by
    have k' : Kept { m with ctx := true } m1 := k
    exact ⟨k'.inv.setCtx _, k'.ext,
      ⟨k'.frame.vars, k'.frame.l2v, k'.frame.lastLen, rfl, k'.frame.sched, k'.frame.roots⟩⟩
  have hl : Lite ext { m1 with ctx := m.ctx } := l.1.setCtx _
  cases r with
  | ok a =>
    rw [tryToReorder_ok f m a m1 hres]
    exact ⟨hk, hl⟩
  | error e =>
    have hne : e ≠ .needsReordering := fun hh => l.2 (by rw [hh])
    rw [tryToReorder_err f m e m1 hres hne]
    exact ⟨hk, hl⟩

/-- `image(trans, source, rename, qvars, forall)`: ANY arguments, reordering not enabled -/
theorem image_kl (ext : Nat → Nat) (t s : Int) (rn : List (Key × Key)) (q : List Key) (fa : Bool)
    (m : Mgr) (hI : Inv m) (hL : Lite ext m) :
    Kept m (image t s rn q fa m).2 ∧ Lite ext (image t s rn q fa m).2 := by
  unfold image
  split
  · exact ⟨Kept.refl hI, hL⟩
  · exact tryToReorder_kl ext _ m (imageBody_kl ext t s _ _ fa _ (hI.setCtx true) (hL.setCtx true))

theorem preimage_kl (ext : Nat → Nat) (t s : Int) (rn : List (Key × Key)) (q : List Key) (fa : Bool)
    (m : Mgr) (hI : Inv m) (hL : Lite ext m) :
    Kept m (preimage t s rn q fa m).2 ∧ Lite ext (preimage t s rn q fa m).2 := by
  unfold preimage
  split
  · exact ⟨Kept.refl hI, hL⟩
  · exact tryToReorder_kl ext _ m
      (preimageBody_kl ext t s _ _ fa _ (hI.setCtx true) (hL.setCtx true))

/-- packaging of `Kept` + `Lite` obtained together -/
theorem keepsAtOff_of_kl {α : Type} {op : M α} {m : Mgr}
    (h : ∀ ext, Inv m → Lite ext m → Kept m (op m).2 ∧ Lite ext (op m).2) : CoreKeepsAt true m op := by
  intro ext hm r m' he
  have h2 : (op m).2 = m' := by rw [he]
  obtain ⟨k, l⟩ := h ext hm.inv hm.lite
  rw [h2] at k l
  exact ⟨hm.of_kept k l.exact, heldExt_of_kept hm.inv k ext⟩

/-- `image` / `preimage`, ANY arguments, reordering not enabled -/
theorem image_keepsOff (t s : Int) (rn : List (Key × Key)) (q : List Key) (fa : Bool) :
    CoreKeeps true (image t s rn q fa) :=
  ⟨fun m => keepsAtOff_of_kl fun ext hi hl => image_kl ext t s rn q fa m hi hl⟩

theorem preimage_keepsOff (t s : Int) (rn : List (Key × Key)) (q : List Key) (fa : Bool) :
    CoreKeeps true (preimage t s rn q fa) :=
  ⟨fun m => keepsAtOff_of_kl fun ext hi hl => preimage_kl ext t s rn q fa m hi hl⟩

theorem aImage_keepsOff (pre : Bool) (ht hs : Nat) (rn : List (Key × Key)) (q : List Key) (fa : Bool)
    (h : Nat) : AKeeps true h (aImage pre ht hs rn q fa h) :=
  aImage_keeps image_keepsOff preimage_keepsOff pre ht hs rn q fa h

end DD
