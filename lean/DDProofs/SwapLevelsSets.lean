/-
  DDProofs.SwapLevelsSets — which nodes are at which level after a `swap`.

  * `swapNodes_extra` : `garbage` holds only children of rebuilt nodes; `xfresh` holds EVERY node
    the surgery created (DDProofs.SwapLevelsFresh, connected to the run of `swapNodes`);
  * `dead_at_lower` : the rooted collection at the end of `swap` removes only nodes that were at
    the LOWER of the two levels before the swap — no node of any other level disappears (a child of
    a removed node is re-referenced by the node that replaces its parent);
  * `SwapLevelFacts` / `swap_level_facts` : after the swap, the nodes at a level other than the
    two are the nodes that were there before; every node at the upper level comes from
    `levels[x]` or `levels[y]`, every node at the lower level from `levels[x]` or `xfresh`.
-/
import DDProofs.SwapLevelsFresh
import DDProofs.SwapFull
open Std

namespace DD

/-! ### `garbage` and `xfresh` of the node surgery -/

theorem swapNodes_extra (m : Mgr) (hI : Inv m) (hoff : m.ctx = false ∨ m.lastLen = none) (x : Nat)
    (hx : x + 1 < m.nvars) (ox oy : List Nat) (hox : LevelOrder m.tbl x ox)
    (hoy : LevelOrder m.tbl (x + 1) oy) (g xf : List Nat) (m' : Mgr)
    (hrun : swapNodes x (x + 1) ox oy m =
      (.ok (ox.map (trip m.tbl), oy.map (trip m.tbl), g, xf), m')) :
    (∀ r ∈ g, ∃ u n, IsDep m.tbl x u ∧ m.tbl.node? u = some n ∧
      (n.lo.natAbs = r ∨ n.hi.natAbs = r)) ∧
    (∀ k nk, m'.tbl.node? k = some nk → nk.lvl = x + 1 → m.tbl.node? k = none → k ∈ xf) := by
  obtain ⟨m1, m2, hp1, hp2, ht2, hr2, hM2⟩ := popLevels_spec m hI x ox oy hox hoy
  have hlvl : ∀ u, u ∈ ox → u ∈ oy → False := by
    intro u h1 h2
    obtain ⟨n, hn, hl⟩ := (hox.mem u).mp h1
    obtain ⟨n', hn', hl'⟩ := (hoy.mem u).mp h2
    rw [hn] at hn'; cases hn'; omega
  obtain ⟨m3, hup, hM3, hF3, hR3⟩ := moveUp_spec m hI x oy m2 _ hM2 hoy.nodup
    (fun u hu => by
      obtain ⟨n, hn, hl⟩ := (hoy.mem u).mp hu
      exact ⟨⟨n, hn, Or.inr hl⟩, n, hn, hl⟩)
    (fun k n hn hl => ⟨n, hn, Or.inl hl⟩)
    (fun k hk => by rw [ht2]; exact hk)
  obtain ⟨done, m4, hind, hdone, hM4, hF4, hR4⟩ := moveIndep_spec m hI x hx ox m3 _ hM3 hox.nodup
    (fun u hu => by
      obtain ⟨n, hn, hl⟩ := (hox.mem u).mp hu
      exact ⟨⟨⟨n, hn, Or.inl hl⟩, fun h => hlvl u hu h⟩, n, hn, hl⟩)
    (fun k n hn hl hp => hp.2 ((hoy.mem k).mpr ⟨n, hn, hl⟩)) hF3
  obtain ⟨g0, xf0, m5, hdp, _⟩ := moveDep_spec hI hoff hx done ox hdone ox m4 _ hM4
    hox.nodup (fun _ h => h) (fun u hu => (hox.mem u).mp hu)
    (fun u hu hd => by
      obtain ⟨n, hn, hl⟩ := (hox.mem u).mp hu
      exact ⟨⟨⟨n, hn, Or.inl hl⟩, fun h => hlvl u hu h⟩, fun h => h.2 hd⟩)
    (fun u hu hd hp => hp.2 ⟨hu, hd⟩)
    (fun k n hn hl hp => hp.1.2 ((hoy.mem k).mpr ⟨n, hn, hl⟩))
  have hrun' : swapNodes x (x + 1) ox oy m =
      (.ok (ox.map (trip m.tbl), oy.map (trip m.tbl), g0, xf0), m5) := by
    unfold swapNodes
    rw [M.bind_ok hp1, M.bind_ok hp2, M.bind_ok hup, M.bind_ok hind, M.bind_ok hdp]
    rfl
  rw [hrun'] at hrun
  have e1 : g0 = g := by injection hrun with a b; injection a with a; injection a with _ a; injection a with _ a; injection a
  have e2 : xf0 = xf := by injection hrun with a b; injection a with a; injection a with _ a; injection a with _ a; injection a
  have e3 : m5 = m' := by injection hrun
  subst e1 e2 e3
  constructor
  · intro r hr
    obtain ⟨t, ht, hd, hch⟩ := moveDep_garbage_inv _ hdp r hr
    obtain ⟨u, hu, rfl⟩ := List.mem_map.mp ht
    obtain ⟨n, hn, hl⟩ := (hox.mem u).mp hu
    have htr : trip m.tbl u = (u, n.lo, n.hi) := by simp [trip, hn]
    rw [htr] at hd hch
    have hnd : u ∉ done := by
      intro h
      have : done.contains u = true := List.contains_iff_mem.mpr h
      rw [this] at hd; cases hd
    have hdep : IsDep m.tbl x u := by
      by_cases hd' : IsDep m.tbl x u
      · exact hd'
      · exact absurd ((hdone u).mpr ⟨hu, hd'⟩) hnd
    exact ⟨u, n, hdep, hn, hch⟩
  · intro k nk hk hl h0
    have hne : ∀ t ∈ ox.map (trip m.tbl), t.1 ≠ k := by
      intro t ht e
      obtain ⟨u, hu, rfl⟩ := List.mem_map.mp ht
      obtain ⟨n, hn, _⟩ := (hox.mem u).mp hu
      have : (trip m.tbl u).1 = u := by simp [trip, hn]
      rw [this] at e
      subst e
      rw [hn] at h0; cases h0
    rcases (moveDep_fresh_inv _ hdp).2 k hne nk hk hl with h4 | h4
    · rw [hF4 k h0] at h4; cases h4
    · exact h4

/-! ### a reference built by `find_or_add` has its two arguments below it -/

/-- the left argument of `Mk … a b r` is a child of the node `r` stands for, or `r` itself -/
theorem mk_parent_left {t' : Tbl} {i : Nat} {a b r : Int} (h : Mk t' i a b r) {u : Nat} {nu : Nd}
    (hu : t'.node? u = some nu) (hr : nu.lo = r ∨ nu.hi = r) :
    ∃ c nc, t'.node? c = some nc ∧ (nc.lo.natAbs = a.natAbs ∨ nc.hi.natAbs = a.natAbs) ∧
      (c = u ∨ nc.lvl = i) := by
  rcases h with ⟨_, h2⟩ | ⟨_, k, _, hn, _⟩
  · subst h2
    rcases hr with e | e
    · exact ⟨u, nu, hu, Or.inl (by rw [e]), Or.inl rfl⟩
    · exact ⟨u, nu, hu, Or.inr (by rw [e]), Or.inl rfl⟩
  · refine ⟨k, _, hn, Or.inl ?_, Or.inr rfl⟩
    show (if b < 0 then -a else a).natAbs = a.natAbs
    split <;> simp

/-- the same for the right argument -/
theorem mk_parent_right {t' : Tbl} {i : Nat} {a b r : Int} (h : Mk t' i a b r) {u : Nat} {nu : Nd}
    (hu : t'.node? u = some nu) (hr : nu.lo = r ∨ nu.hi = r) :
    ∃ c nc, t'.node? c = some nc ∧ (nc.lo.natAbs = b.natAbs ∨ nc.hi.natAbs = b.natAbs) ∧
      (c = u ∨ nc.lvl = i) := by
  rcases h with ⟨h1, h2⟩ | ⟨_, k, _, hn, _⟩
  · subst h2
    rcases hr with e | e
    · exact ⟨u, nu, hu, Or.inl (by rw [e, h1]), Or.inl rfl⟩
    · exact ⟨u, nu, hu, Or.inr (by rw [e, h1]), Or.inl rfl⟩
  · refine ⟨k, _, hn, Or.inr ?_, Or.inr rfl⟩
    show (if b < 0 then -b else b).natAbs = b.natAbs
    split <;> simp

/-! ### what the rooted collection of `swap` removes -/

/-- in the swapped table, a rebuilt node `u` and the nodes at the lower level are parents that the
collection does not remove -/
theorem live_parent {t t' : Tbl} {x : Nat} {ext : Nat → Nat} {W : Nat → Prop} (hw : WF t)
    (h : SwapRel t t' x (fun _ => False)) (hW : ∀ k, W k → Below t x k)
    {u : Nat} {n : Nd} (hn : t.node? u = some n) (hl : n.lvl = x)
    {c : Nat} {nc : Nd} (hc : t'.node? c = some nc) (hcu : c = u ∨ nc.lvl = x + 1) :
    ¬ Dead t' ext W c := by
  intro hd
  have hb := dead_below hw h hW c hd
  rcases hcu with e | e
  · subst e
    obtain ⟨r, hr, hlr, hrc⟩ := hb
    have h1 : r.natAbs ≠ 1 := by have := hw.ge_two _ _ hn; omega
    rw [levelOf_node t r n h1 (by rw [hrc]; exact hn)] at hlr
    omega
  · exact not_below_of_lower hw h hc e hb

/-- **the rooted collection of `swap` removes only nodes that were at the lower level**: every
removed node is a node of the old table whose level was `x + 1` -/
theorem dead_at_lower {m m6 : Mgr} {ext : Nat → Nat} {x : Nat} {g : List Nat} (hI : Inv m)
    (hx : x + 1 < m.nvars)
    (hrel : SwapRel m.tbl m6.tbl x (fun _ => False)) (hR6 : RefExact m6 ext)
    (hg : ∀ r ∈ g, ∃ u n, IsDep m.tbl x u ∧ m.tbl.node? u = some n ∧
      (n.lo.natAbs = r ∨ n.hi.natAbs = r)) :
    ∀ k, Dead m6.tbl ext (gcStart (some (g.map (fun (k : Nat) => (k : Int)))) m6) k →
      ∃ n, m.tbl.node? k = some n ∧ n.lvl = x + 1 := by
  have hW := hI.wf.toWF
  have hx' : x + 1 < m.tbl.nvars := hx
  -- the start worklist consists of old references not above the lower level
  have hWk : ∀ k, gcStart (some (g.map (fun (k : Nat) => (k : Int)))) m6 k → Below m.tbl x k := by
    rintro k ⟨_, r, hr, rfl⟩
    simp only [gcRoots, List.mem_map] at hr
    obtain ⟨k', hk', rfl⟩ := hr
    obtain ⟨u, n, hd, hn, hch⟩ := hg k' hk'
    obtain ⟨n', hn', hl', _⟩ := hd
    rw [hn] at hn'; cases hn'
    obtain ⟨glo, ghi⟩ := child_lvl_ge hW hn hl'
    rcases hch with e | e
    · exact ⟨n.lo, hW.lo_mem _ _ hn, glo, by simpa using e⟩
    · exact ⟨n.hi, hW.hi_mem _ _ hn, ghi, by simpa using e⟩
  -- a reference strictly below both levels that is a child of a rebuilt node, or of a node that
  -- was at the lower level and is itself a child of a rebuilt node, has a parent that stays
  have key : ∀ (u : Nat) (n : Nd), IsDep m.tbl x u → m.tbl.node? u = some n →
      ∀ c : Int, (c = n.lo ∨ c = n.hi) →
      ∀ d : Int, (d = (cof m.tbl (x + 1) c).1 ∨ d = (cof m.tbl (x + 1) c).2) →
      ∃ p np, m6.tbl.node? p = some np ∧ (np.lo.natAbs = d.natAbs ∨ np.hi.natAbs = d.natAbs) ∧
        ¬ Dead m6.tbl ext (gcStart (some (g.map (fun (k : Nat) => (k : Int)))) m6) p := by
    intro u n hd hn c hc d hdd
    obtain ⟨n', hn', hl', hdep⟩ := hd
    rw [hn] at hn'; cases hn'
    obtain ⟨p, q, hu6, hmp, hmq⟩ := hrel.dep u n hn hl' hdep (fun hf => hf)
    have hlo : (⟨x, p, q⟩ : Nd).lo = p ∨ (⟨x, p, q⟩ : Nd).hi = p := Or.inl rfl
    have hhi : (⟨x, p, q⟩ : Nd).lo = q ∨ (⟨x, p, q⟩ : Nd).hi = q := Or.inr rfl
    have fin : ∀ c' nc, m6.tbl.node? c' = some nc →
        (nc.lo.natAbs = d.natAbs ∨ nc.hi.natAbs = d.natAbs) → (c' = u ∨ nc.lvl = x + 1) →
        ∃ p np, m6.tbl.node? p = some np ∧ (np.lo.natAbs = d.natAbs ∨ np.hi.natAbs = d.natAbs) ∧
          ¬ Dead m6.tbl ext (gcStart (some (g.map (fun (k : Nat) => (k : Int)))) m6) p :=
      fun c' nc h1 h2 h3 => ⟨c', nc, h1, h2, live_parent hW hrel hWk hn hl' h1 h3⟩
    rcases hc with rfl | rfl
    · rcases hdd with rfl | rfl
      · obtain ⟨c', nc, h1, h2, h3⟩ := mk_parent_left hmp hu6 hlo
        exact fin c' nc h1 h2 h3
      · obtain ⟨c', nc, h1, h2, h3⟩ := mk_parent_left hmq hu6 hhi
        exact fin c' nc h1 h2 h3
    · rcases hdd with rfl | rfl
      · obtain ⟨c', nc, h1, h2, h3⟩ := mk_parent_right hmp hu6 hlo
        exact fin c' nc h1 h2 h3
      · obtain ⟨c', nc, h1, h2, h3⟩ := mk_parent_right hmq hu6 hhi
        exact fin c' nc h1 h2 h3
  intro k hd
  induction hd with
  | root hk =>
    rename_i k
    -- a root of count 0: it has no stored parent
    obtain ⟨hz, r, hr, hrk⟩ := hk
    simp only [gcRoots, List.mem_map] at hr
    obtain ⟨k', hk', rfl⟩ := hr
    have hkk : k' = k := by simpa using hrk
    subst hkk
    obtain ⟨u, n, hdp, hn, hch⟩ := hg k' hk'
    have hcnt := hR6.cnt k' 0 hz
    have hind : indeg m6.tbl k' = 0 := by omega
    have hdp' := hdp
    obtain ⟨n', hn', hl', _⟩ := hdp'
    rw [hn] at hn'; cases hn'
    obtain ⟨glo, ghi⟩ := child_lvl_ge hW hn hl'
    -- the child `c` of `u` with `|c| = k'`
    have main : ∀ c : Int, (c = n.lo ∨ c = n.hi) → m.tbl.Mem c → x + 1 ≤ m.tbl.levelOf c →
        c.natAbs = k' → ∃ nk, m.tbl.node? k' = some nk ∧ nk.lvl = x + 1 := by
      intro c hc hm hge hck
      by_cases hlc : m.tbl.levelOf c = x + 1
      · obtain ⟨h1, nk, hnk, hlk⟩ := node_of_level m.tbl c (x + 1) hm hlc hx'
        exact ⟨nk, by rw [← hck]; exact hnk, hlk⟩
      · exfalso
        have hcof := cof_of_ne m.tbl (x + 1) c hlc
        obtain ⟨p, np, hp, hch', _⟩ := key u n hdp hn c hc c (Or.inl (by rw [hcof]))
        rw [hck] at hch'
        rcases hch' with e | e
        · have := indeg_pos_of_lo hp; rw [e] at this; omega
        · have := indeg_pos_of_hi hp; rw [e] at this; omega
    rcases hch with e | e
    · exact main n.lo (Or.inl rfl) (hW.lo_mem _ _ hn) glo e
    · exact main n.hi (Or.inr rfl) (hW.hi_mem _ _ hn) ghi e
  | cascade hk1 hext hp hch hall ih =>
    rename_i k P X
    exfalso
    -- the parent `P` is removed, hence was at the lower level
    obtain ⟨nP, hnP, hlP⟩ := ih P X hp hch
    have hP6 : m6.tbl.node? P = some ⟨x, nP.lo, nP.hi⟩ := hrel.up P nP hnP hlP (fun hf => hf)
    rw [hP6] at hp
    cases hp
    have hPdead := hall P _ hP6 hch
    -- `P` cannot have been removed by cascade: its parents are above the upper level
    have hW6 : WF m6.tbl := swapRel_wf hI.wf hx hrel
    have hroot : gcStart (some (g.map (fun (k : Nat) => (k : Int)))) m6 P := by
      cases hPdead with
      | root h => exact h
      | @cascade _ Q Y _ _ hq hqch hqall =>
        exfalso
        have hQd := hqall Q Y hq hqch
        obtain ⟨c, hc, hlc, hcQ⟩ := dead_below hW hrel hWk Q hQd
        -- level of `Q` in the swapped table is below `x`
        have hlt : Y.lvl < x := by
          rcases hqch with e | e
          · have := hW6.lo_lt _ _ hq
            have h1 : Y.lo.natAbs ≠ 1 := by rw [e]; have := hW.ge_two _ _ hnP; omega
            rw [levelOf_node m6.tbl Y.lo _ h1 (by rw [e]; exact hP6)] at this
            exact this
          · have := hW6.hi_lt _ _ hq
            have h1 : Y.hi.natAbs ≠ 1 := by rw [e]; have := hW.ge_two _ _ hnP; omega
            rw [levelOf_node m6.tbl Y.hi _ h1 (by rw [e]; exact hP6)] at this
            exact this
        rcases hrel.classify hq (fun hf => hf) with ⟨_, _, hl, _⟩ | ⟨nQ, hnQ, hcase⟩
        · omega
        · have h1 : c.natAbs ≠ 1 := by rw [hcQ]; have := hW.ge_two _ _ hnQ; omega
          rw [levelOf_node m.tbl c nQ h1 (by rw [hcQ]; exact hnQ)] at hlc
          rcases hcase with ⟨_, _, e⟩ | ⟨_, e⟩ | ⟨h3, _⟩ | ⟨h3, _⟩
          · rw [e] at hlt; omega
          · rw [e] at hlt; simp at hlt
          · omega
          · omega
    -- `P` is a child of a rebuilt node `u`
    obtain ⟨_, r, hr, hrP⟩ := hroot
    simp only [gcRoots, List.mem_map] at hr
    obtain ⟨P', hP', rfl⟩ := hr
    have hPP : P' = P := by simpa using hrP
    subst hPP
    obtain ⟨u, n, hdp, hn, hchu⟩ := hg P' hP'
    have h1P : ∀ c : Int, c.natAbs = P' → c.natAbs ≠ 1 := by
      intro c hc; rw [hc]; have := hW.ge_two _ _ hnP; omega
    -- `k` is `|nP.lo|` or `|nP.hi|`, a cofactor of the child `c` of `u` with `|c| = P'`
    have main : ∀ c : Int, (c = n.lo ∨ c = n.hi) → c.natAbs = P' → False := by
      intro c hc hcP
      have hcof := cof_at m.tbl (x + 1) c nP (h1P c hcP) (by rw [hcP]; exact hnP) hlP
      have hd : ∃ d : Int, (d = (cof m.tbl (x + 1) c).1 ∨ d = (cof m.tbl (x + 1) c).2) ∧
          d.natAbs = k := by
        rw [hcof]
        rcases hch with e | e
        · refine ⟨(if c < 0 then (-nP.lo, -nP.hi) else (nP.lo, nP.hi)).1, Or.inl rfl, ?_⟩
          split <;> simpa using e
        · refine ⟨(if c < 0 then (-nP.lo, -nP.hi) else (nP.lo, nP.hi)).2, Or.inr rfl, ?_⟩
          split <;> simpa using e
      obtain ⟨d, hdd, hdk⟩ := hd
      obtain ⟨p, np, hp, hch', hlive⟩ := key u n hdp hn c hc d hdd
      rw [hdk] at hch'
      exact hlive (hall p np hp hch')
    rcases hchu with e | e
    · exact main n.lo (Or.inl rfl) e
    · exact main n.hi (Or.inr rfl) e

/-! ### the level sets after the swap -/

/-- where the nodes of each level come from, after a swap of the levels `x`, `x + 1` -/
structure SwapLevelFacts (m m7 : Mgr) (x : Nat) (ox oy xf : List Nat) : Prop where
  /-- levels other than the two: the same nodes as before -/
  other : ∀ j, j ≠ x → j ≠ x + 1 → ∀ k,
    (∃ n, m7.tbl.node? k = some n ∧ n.lvl = j) ↔ (∃ n, m.tbl.node? k = some n ∧ n.lvl = j)
  /-- the upper level: from `levels[x]` (rebuilt) or `levels[y]` (moved up) -/
  upper : ∀ k n, m7.tbl.node? k = some n → n.lvl = x → k ∈ ox ∨ k ∈ oy
  /-- the lower level: from `levels[x]` (relabelled) or `xfresh` (created) -/
  lower : ∀ k n, m7.tbl.node? k = some n → n.lvl = x + 1 → k ∈ ox ∨ k ∈ xf

theorem swap_level_facts {m m6 m7 : Mgr} {ext : Nat → Nat} {x : Nat} {ox oy g xf : List Nat}
    (hI : Inv m) (hx : x + 1 < m.nvars) (hox : LevelOrder m.tbl x ox)
    (hoy : LevelOrder m.tbl (x + 1) oy)
    (hrel : SwapRel m.tbl m6.tbl x (fun _ => False)) (hR6 : RefExact m6 ext)
    (hg : ∀ r ∈ g, ∃ u n, IsDep m.tbl x u ∧ m.tbl.node? u = some n ∧
      (n.lo.natAbs = r ∨ n.hi.natAbs = r))
    (hxf : ∀ k nk, m6.tbl.node? k = some nk → nk.lvl = x + 1 → m.tbl.node? k = none → k ∈ xf)
    (hG : GcPost m6 ext (gcStart (some (g.map (fun (k : Nat) => (k : Int)))) m6) m7) :
    SwapLevelFacts m m7 x ox oy xf := by
  have hdead := dead_at_lower hI hx hrel hR6 hg
  refine ⟨?_, ?_, ?_⟩
  · intro j hj1 hj2 k
    constructor
    · rintro ⟨n, hn, hl⟩
      have h6 := ((hG.nodes k n).mp hn).1
      rcases hrel.classify h6 (fun hf => hf) with ⟨_, _, hl', _⟩ | ⟨n0, hn0, hcase⟩
      · omega
      · rcases hcase with ⟨_, _, e⟩ | ⟨_, e⟩ | ⟨_, _, _, e⟩ | ⟨_, _, p, q, e, _⟩
        · subst e; exact ⟨n, hn0, hl⟩
        · rw [e] at hl; simp at hl; omega
        · rw [e] at hl; simp at hl; omega
        · rw [e] at hl; simp at hl; omega
    · rintro ⟨n, hn, hl⟩
      have h6 := hrel.other k n hn (by omega) (by omega)
      refine ⟨n, (hG.nodes k n).mpr ⟨h6, fun hd => ?_⟩, hl⟩
      obtain ⟨n', hn', hl'⟩ := hdead k hd
      rw [hn] at hn'; cases hn'; omega
  · intro k n hn hl
    have h6 := ((hG.nodes k n).mp hn).1
    rcases hrel.classify h6 (fun hf => hf) with ⟨_, _, hl', _⟩ | ⟨n0, hn0, hcase⟩
    · omega
    · rcases hcase with ⟨h1, _, e⟩ | ⟨h1, _⟩ | ⟨_, _, _, e⟩ | ⟨h1, _⟩
      · subst e; omega
      · exact Or.inr ((hoy.mem k).mpr ⟨n0, hn0, h1⟩)
      · rw [e] at hl; simp at hl
      · exact Or.inl ((hox.mem k).mpr ⟨n0, hn0, h1⟩)
  · intro k n hn hl
    have h6 := ((hG.nodes k n).mp hn).1
    rcases hrel.classify h6 (fun hf => hf) with ⟨h0, _⟩ | ⟨n0, hn0, hcase⟩
    · exact Or.inr (hxf k n h6 hl h0)
    · rcases hcase with ⟨_, h2, e⟩ | ⟨_, e⟩ | ⟨h1, _⟩ | ⟨_, _, p, q, e, _⟩
      · subst e; omega
      · rw [e] at hl; simp at hl
      · exact Or.inl ((hox.mem k).mpr ⟨n0, hn0, h1⟩)
      · rw [e] at hl; simp at hl

end DD
