/-
  DDProofs.Names — semantics by variable NAME.

  `den` reads an assignment of *levels*.  Reordering exchanges the variables of two
  adjacent levels, so what a reference denotes has to be stated over assignments of
  *names*: `denN t u a = den t u (a ∘ l2v)`.

  * `OrderOK t`   : `vars` and `_level_to_var` are mutually inverse bijections between the
                   declared names and the levels `0 .. nvars-1`.
  * `swp x y`    : the transposition of two levels.
  * `exchangeVars` : what `swap` does to the two maps; `OrderOK` is preserved, the four views
                   of the order (`vars`, `_level_to_var`, `level_of_var`, `var_at_level`)
                   agree afterwards, exactly the two names are exchanged.
  * `denN_of_den_swp` : a table whose level-denotation is the old one composed with the
                   transposition has the SAME name-denotation once the maps are exchanged.
-/
import DDProofs.Canon
import DDProofs.VarsProofs
import DDProofs.SatPick
open Std

namespace DD

/-! ### the transposition of two levels -/

/-- exchange `x` and `y`, keep everything else -/
def swp (x y i : Nat) : Nat := if i = x then y else if i = y then x else i

@[simp] theorem swp_left (x y : Nat) : swp x y x = y := by simp [swp]
@[simp] theorem swp_right (x y : Nat) : swp x y y = x := by
  unfold swp; split <;> simp_all
theorem swp_other {x y i : Nat} (h1 : i ≠ x) (h2 : i ≠ y) : swp x y i = i := by simp [swp, h1, h2]
@[simp] theorem swp_swp (x y i : Nat) : swp x y (swp x y i) = i := by
  unfold swp
  by_cases h1 : i = x
  · subst h1; by_cases h2 : y = i <;> simp [h2]
  · by_cases h2 : i = y
    · subst h2; simp [h1]
    · simp [h1, h2]
theorem swp_inj {x y i j : Nat} (h : swp x y i = swp x y j) : i = j := by
  have := congrArg (swp x y) h
  simpa using this
theorem swp_lt {x y n i : Nat} (hx : x < n) (hy : y < n) : swp x y i < n ↔ i < n := by
  unfold swp
  by_cases h1 : i = x
  · subst h1; simp [hx, hy]
  · by_cases h2 : i = y
    · subst h2; simp [h1, hx, hy]
    · simp [h1, h2]

/-- an assignment of levels seen through the transposition -/
def Asg.swp (b : Asg) (x y : Nat) : Asg := fun i => b (DD.swp x y i)

@[simp] theorem Asg.swp_apply (b : Asg) (x y i : Nat) : b.swp x y i = b (DD.swp x y i) := rfl
@[simp] theorem Asg.swp_swp (b : Asg) (x y : Nat) : (b.swp x y).swp x y = b := by
  funext i; simp [Asg.swp]

/-! ### names

`OrderOK t` (DDProofs.VarsProofs, C14): `vars` and `_level_to_var` are mutually inverse bijections
between the declared names and the levels `0 .. nvars-1`.  `denN t u σ = den t u (t.lift σ)`
(DDProofs.SatPick): what the reference `u` denotes as a function of variable NAMES. -/

theorem OrderOK.dom {t : Tbl} (h : OrderOK t) (i : Nat) : (t.l2v[i]?).isSome ↔ i < t.nvars := by
  constructor
  · intro hs
    obtain ⟨v, hv⟩ := Option.isSome_iff_exists.mp hs
    exact h.lt v i ((h.inv v i).mpr hv)
  · intro hi
    obtain ⟨v, hv⟩ := h.total i hi
    rw [hv]; rfl

theorem OrderOK.lvl_lt {t : Tbl} (h : OrderOK t) {v : String} {i : Nat} (hv : t.vars[v]? = some i) :
    i < t.nvars := h.lt v i hv

theorem OrderOK.name_at {t : Tbl} (h : OrderOK t) {i : Nat} (hi : i < t.nvars) :
    ∃ v, t.l2v[i]? = some v ∧ t.vars[v]? = some i := by
  obtain ⟨v, hv⟩ := h.total i hi
  exact ⟨v, hv, (h.inv v i).mpr hv⟩

theorem OrderOK.vars_inj {t : Tbl} (h : OrderOK t) {v v' : String} {i : Nat}
    (h1 : t.vars[v]? = some i) (h2 : t.vars[v']? = some i) : v = v' := by
  have a := (h.inv v i).mp h1
  have b := (h.inv v' i).mp h2
  rw [a] at b; exact Option.some.inj b

theorem OrderOK.l2v_inj {t : Tbl} (h : OrderOK t) {v : String} {i j : Nat}
    (h1 : t.l2v[i]? = some v) (h2 : t.l2v[j]? = some v) : i = j := by
  have a := (h.inv v i).mpr h1
  have b := (h.inv v j).mpr h2
  rw [a] at b; exact Option.some.inj b

/-- the weaker condition used by the enumeration proofs (DDProofs.SatPick) follows -/
theorem OrderOK.toVarsOK {t : Tbl} (h : OrderOK t) : VarsOK t := by
  refine ⟨h.total, ?_⟩
  intro i j hi hj he
  obtain ⟨vi, hvi⟩ := h.total i hi
  obtain ⟨vj, hvj⟩ := h.total j hj
  simp only [Tbl.nameOf, hvi, hvj, Option.getD_some] at he
  subst he
  exact h.l2v_inj hvi hvj

theorem denN_eq (t : Tbl) (u : Int) (a : String → Bool) : denN t u a = den t u (t.lift a) := rfl

/-- the name-denotation only depends on the nodes and on `_level_to_var` -/
theorem denN_congr {t t' : Tbl} (hs : t'.succ = t.succ) (hl : t'.l2v = t.l2v)
    (hn : t'.nvars = t.nvars) (u : Int) (a : String → Bool) : denN t' u a = denN t u a := by
  unfold denN den Tbl.lift Tbl.nameOf
  rw [hl, hn]
  have : ∀ f u b, denF t' f u b = denF t f u b := by
    intro f
    induction f with
    | zero => intros; rfl
    | succ f ih =>
      intro u b
      rw [denF, denF]
      simp only [Tbl.node?, hs, ih]
  exact this _ _ _

/-! ### the exchange of two adjacent variables -/

/-- what `swap` does to `vars` and `_level_to_var` (Python lines 1805–1812):
`vars[vx] = y; vars[vy] = x; l2v[y] = vx; l2v[x] = vy` where `vx`, `vy` are the names at `x`, `y` -/
def exchangeVars (t : Tbl) (x y : Nat) (vx vy : String) : Tbl :=
  { t with
    vars := (t.vars.insert vx y).insert vy x
    l2v := (t.l2v.insert y vx).insert x vy }

theorem exchangeVars_succ (t : Tbl) (x y : Nat) (vx vy : String) :
    (exchangeVars t x y vx vy).succ = t.succ := rfl

theorem exchangeVars_node? (t : Tbl) (x y : Nat) (vx vy : String) (u : Nat) :
    (exchangeVars t x y vx vy).node? u = t.node? u := rfl

/-- `_level_to_var` after the exchange is the old one composed with the transposition -/
theorem exchangeVars_l2v (t : Tbl) (x y : Nat) (vx vy : String) (hxy : x ≠ y)
    (hx : t.l2v[x]? = some vx) (hy : t.l2v[y]? = some vy) (i : Nat) :
    (exchangeVars t x y vx vy).l2v[i]? = t.l2v[swp x y i]? := by
  show ((t.l2v.insert y vx).insert x vy)[i]? = _
  rw [TreeMap.getElem?_insert, TreeMap.getElem?_insert]
  by_cases h1 : i = x
  · subst h1; simp [hy]
  · have h1' : ¬ x = i := fun h => h1 h.symm
    by_cases h2 : i = y
    · subst h2; simp [h1', hx]
    · have h2' : ¬ y = i := fun h => h2 h.symm
      simp [h1', h2', swp_other h1 h2]

theorem exchangeVars_vars (t : Tbl) (h : OrderOK t) (x y : Nat) (vx vy : String) (hxy : x ≠ y)
    (hx : t.l2v[x]? = some vx) (hy : t.l2v[y]? = some vy) (v : String) :
    (exchangeVars t x y vx vy).vars[v]? = (t.vars[v]?).map (swp x y) := by
  show ((t.vars.insert vx y).insert vy x)[v]? = _
  have hvx := (h.inv vx x).mpr hx
  have hvy := (h.inv vy y).mpr hy
  have hne : vx ≠ vy := by
    intro he; subst he
    exact hxy (h.l2v_inj hx hy)
  rw [TreeMap.getElem?_insert, TreeMap.getElem?_insert]
  by_cases h1 : v = vy
  · subst h1; simp [hvy]
  · have h1' : ¬ vy = v := fun h => h1 h.symm
    by_cases h2 : v = vx
    · subst h2; simp [h1', hvx]
    · have h2' : ¬ vx = v := fun h => h2 h.symm
      simp only [compare_eq_iff_eq, h1', h2', if_false]
      cases hv : t.vars[v]? with
      | none => rfl
      | some i =>
        have hi := (h.inv v i).mp hv
        have hix : i ≠ x := by
          intro he; subst he; rw [hx] at hi; exact h2 (Option.some.inj hi).symm
        have hiy : i ≠ y := by
          intro he; subst he; rw [hy] at hi; exact h1 (Option.some.inj hi).symm
        simp [swp_other hix hiy]

theorem exchangeVars_nvars (t : Tbl) (h : OrderOK t) (x y : Nat) (vx vy : String)
    (hx : t.l2v[x]? = some vx) (hy : t.l2v[y]? = some vy) :
    (exchangeVars t x y vx vy).nvars = t.nvars := by
  show ((t.vars.insert vx y).insert vy x).size = t.vars.size
  have hvx := (h.inv vx x).mpr hx
  have hvy := (h.inv vy y).mpr hy
  have c1 : t.vars.contains vx = true := by
    rw [TreeMap.contains_eq_isSome_getElem?, hvx]; rfl
  have c2 : (t.vars.insert vx y).contains vy = true := by
    rw [TreeMap.contains_insert]
    have : t.vars.contains vy = true := by
      rw [TreeMap.contains_eq_isSome_getElem?, hvy]; rfl
    simp [this]
  rw [TreeMap.size_insert, TreeMap.size_insert]
  simp [c1, c2]

/-- the exchange keeps the two maps mutually inverse bijections onto `0..nvars-1` -/
theorem OrderOK.exchange {t : Tbl} (h : OrderOK t) (x y : Nat) (vx vy : String) (hxy : x ≠ y)
    (hx : t.l2v[x]? = some vx) (hy : t.l2v[y]? = some vy) :
    OrderOK (exchangeVars t x y vx vy) := by
  have hxn : x < t.nvars := (h.dom x).mp (by rw [hx]; rfl)
  have hyn : y < t.nvars := (h.dom y).mp (by rw [hy]; rfl)
  have hdom : ∀ i, ((exchangeVars t x y vx vy).l2v[i]?).isSome ↔ i < (exchangeVars t x y vx vy).nvars := by
    intro i
    rw [exchangeVars_l2v t x y vx vy hxy hx hy, exchangeVars_nvars t h x y vx vy hx hy, h.dom,
      swp_lt hxn hyn]
  have hinv : ∀ (v : String) (i : Nat), (exchangeVars t x y vx vy).vars[v]? = some i ↔
      (exchangeVars t x y vx vy).l2v[i]? = some v := by
    intro v i
    rw [exchangeVars_vars t h x y vx vy hxy hx hy, exchangeVars_l2v t x y vx vy hxy hx hy]
    rw [← h.inv v (swp x y i)]
    cases hv : t.vars[v]? with
    | none => simp
    | some j =>
      simp only [Option.map_some, Option.some.injEq]
      constructor
      · intro e; rw [← e]; simp
      · intro e; rw [e]; simp
  refine ⟨hinv, ?_, ?_⟩
  · intro v i hv
    exact (hdom i).mp (by rw [(hinv v i).mp hv]; rfl)
  · intro i hi
    exact Option.isSome_iff_exists.mp ((hdom i).mpr hi)

/-- exactly the two names are exchanged: the name at `x` is the old name at `y` and vice versa,
every other level keeps its name -/
theorem exchangeVars_names (t : Tbl) (x y : Nat) (vx vy : String) (hxy : x ≠ y)
    (hx : t.l2v[x]? = some vx) (hy : t.l2v[y]? = some vy) :
    (exchangeVars t x y vx vy).l2v[x]? = some vy ∧ (exchangeVars t x y vx vy).l2v[y]? = some vx ∧
    ∀ i, i ≠ x → i ≠ y → (exchangeVars t x y vx vy).l2v[i]? = t.l2v[i]? := by
  refine ⟨?_, ?_, ?_⟩
  · rw [exchangeVars_l2v t x y vx vy hxy hx hy, swp_left, hy]
  · rw [exchangeVars_l2v t x y vx vy hxy hx hy, swp_right, hx]
  · intro i h1 h2
    rw [exchangeVars_l2v t x y vx vy hxy hx hy, swp_other h1 h2]

/-- the level assignment induced by names after the exchange is the old one seen through the
transposition -/
theorem lvlAsg_exchange (t : Tbl) (x y : Nat) (vx vy : String) (hxy : x ≠ y)
    (hx : t.l2v[x]? = some vx) (hy : t.l2v[y]? = some vy) (a : String → Bool) :
    (exchangeVars t x y vx vy).lift a = (t.lift a).swp x y := by
  funext i
  simp only [Tbl.lift, Tbl.nameOf, Asg.swp]
  rw [exchangeVars_l2v t x y vx vy hxy hx hy]

/-- **Semantics by name through an exchange.**  If the level-denotation of `u` in `t'` is the
level-denotation in `t` read through the transposition, and `t'` carries the exchanged maps,
then `u` denotes the same function of variable names in `t'` as in `t`. -/
theorem denN_of_den_swp (t t' : Tbl) (x y : Nat) (vx vy : String) (hxy : x ≠ y)
    (hx : t.l2v[x]? = some vx) (hy : t.l2v[y]? = some vy)
    (hl : t'.l2v = (exchangeVars t x y vx vy).l2v)
    (u : Int) (hd : ∀ b : Asg, den t' u (b.swp x y) = den t u b) (a : String → Bool) :
    denN t' u a = denN t u a := by
  rw [denN_eq, denN_eq, ← hd (t.lift a)]
  congr 1
  have := lvlAsg_exchange t x y vx vy hxy hx hy a
  rw [← this]
  unfold Tbl.lift Tbl.nameOf
  rw [hl]

end DD
