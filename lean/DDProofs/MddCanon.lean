/-
  DDProofs.MddCanon — canonicity of MDDs: two references of an ordered, reduced,
  first-successor-regular, unique table denote the same function of the (valid) integer
  assignments iff they are equal.  Imitates DDProofs.Canon (binary case).
-/
import DDProofs.MddSem
open Std

namespace DD

def mupd (a : MAsg) (i : Nat) (b : Nat) : MAsg := fun j => if j = i then b else a j

@[simp] theorem mupd_same (a : MAsg) (i : Nat) (b : Nat) : mupd a i b i = b := by simp [mupd]
theorem mupd_other (a : MAsg) (i j : Nat) (b : Nat) (h : j ≠ i) : mupd a i b j = a j := by
  simp [mupd, h]

theorem MValid.mupd {t : MTbl} {a : MAsg} (h : MValid t a) (i b : Nat) (hb : b < t.arity i) :
    MValid t (mupd a i b) := by
  intro j hj
  by_cases hji : j = i
  · subst hji; simpa using hb
  · rw [mupd_other _ _ _ _ hji]; exact h j hj

/-- a reference whose level is above `i` does not depend on `i` -/
theorem denM_indep (t : MTbl) (hw : MWF t) :
    ∀ k u, t.Mem u → t.nvars ≤ k + t.levelOf u → ∀ i b a, i < t.levelOf u →
      denM t u (mupd a i b) = denM t u a := by
  intro k
  induction k with
  | zero =>
    intro u hm hk i b a hi
    by_cases h1 : u.natAbs = 1
    · rcases mabs_one h1 with h | h <;> subst h
      · simp [denM_one]
      · exact (denM_neg_one t _).trans (denM_neg_one t _).symm
    · rcases hm with hm | hm
      · exact absurd hm h1
      · obtain ⟨n, hn⟩ := Option.isSome_iff_exists.mp hm
        have hl := t.levelOf_node u n h1 hn
        have := hw.lvl_lt _ _ hn
        omega
  | succ k ih =>
    intro u hm hk i b a hi
    by_cases h1 : u.natAbs = 1
    · rcases mabs_one h1 with h | h <;> subst h
      · simp [denM_one]
      · exact (denM_neg_one t _).trans (denM_neg_one t _).symm
    · rcases hm with hm | hm
      · exact absurd hm h1
      · obtain ⟨n, hn⟩ := Option.isSome_iff_exists.mp hm
        have hl := t.levelOf_node u n h1 hn
        rw [denM_node t hw u n _ h1 hn, denM_node t hw u n _ h1 hn]
        have hne : n.lvl ≠ i := by omega
        rw [mupd_other _ _ _ _ hne]
        cases hk' : n.kids[a n.lvl]? with
        | none => rfl
        | some c =>
          have hcm := getElem?_mem' hk'
          have h2 := hw.kids_lt _ _ hn c hcm
          simp only
          rw [ih c (hw.kids_mem _ _ hn c hcm) (by omega) i b a (by omega)]

theorem denM_indep' (t : MTbl) (hw : MWF t) (u : Int) (hm : t.Mem u) (i b : Nat) (a : MAsg)
    (hi : i < t.levelOf u) : denM t u (mupd a i b) = denM t u a :=
  denM_indep t hw t.nvars u hm (by omega) i b a hi

/-- regular references are true under the all-zero assignment (first successors are regular) -/
theorem denM_allzero (t : MTbl) (hw : MWF t) :
    ∀ k u, t.Mem u → t.nvars ≤ k + t.levelOf u → denM t u (fun _ => 0) = decide (0 < u) := by
  intro k
  induction k with
  | zero =>
    intro u hm hk
    by_cases h1 : u.natAbs = 1
    · rcases mabs_one h1 with h | h <;> subst h
      · simp [denM_one]
      · rw [denM_neg_one]; simp
    · rcases hm with hm | hm
      · exact absurd hm h1
      · obtain ⟨n, hn⟩ := Option.isSome_iff_exists.mp hm
        have hl := t.levelOf_node u n h1 hn
        have := hw.lvl_lt _ _ hn
        omega
  | succ k ih =>
    intro u hm hk
    by_cases h1 : u.natAbs = 1
    · rcases mabs_one h1 with h | h <;> subst h
      · simp [denM_one]
      · rw [denM_neg_one]; simp
    · rcases hm with hm | hm
      · exact absurd hm h1
      · obtain ⟨n, hn⟩ := Option.isSome_iff_exists.mp hm
        have hl := t.levelOf_node u n h1 hn
        obtain ⟨k0, rest, hk0, hpos⟩ := hw.head_pos _ _ hn
        have hget : n.kids[(fun _ : Nat => 0) n.lvl]? = some k0 := by simp [hk0]
        rw [denM_node_kid t hw u n _ k0 h1 hn hget]
        have hmem : k0 ∈ n.kids := by simp [hk0]
        have h2 := hw.kids_lt _ _ hn k0 hmem
        rw [ih k0 (hw.kids_mem _ _ hn k0 hmem) (by omega)]
        have hu0 : u ≠ 0 := t.mem_ne_zero hw (Or.inr hm)
        by_cases hneg : u < 0
        · have : ¬ (0 < u) := by omega
          simp [hneg, hpos, this]
        · have : 0 < u := by omega
          simp [hneg, hpos, this]

/-- the all-zero assignment is valid when every variable has at least one value -/
theorem mvalid_zero (t : MTbl) (hpos : ∀ i, i < t.nvars → 0 < t.arity i) : MValid t (fun _ => 0) :=
  fun i hi => hpos i hi

/-- cofactor equation for a positive node: the `j`-th successor is the function with the
node's variable set to `j` -/
theorem denM_kid_eq (t : MTbl) (hw : MWF t) (u : Int) (n : MNd) (hpos : 0 < u) (h1 : u.natAbs ≠ 1)
    (hn : t.node? u.natAbs = some n) (j : Nat) (c : Int) (hc : n.kids[j]? = some c) (a : MAsg) :
    denM t c a = denM t u (mupd a n.lvl j) := by
  have hget : n.kids[(mupd a n.lvl j) n.lvl]? = some c := by simpa using hc
  rw [denM_node_kid t hw u n _ c h1 hn hget]
  have : ¬ u < 0 := by omega
  simp only [this, decide_false, Bool.false_bne]
  have hcm := getElem?_mem' hc
  exact (denM_indep' t hw c (hw.kids_mem _ _ hn c hcm) n.lvl j a (hw.kids_lt _ _ hn c hcm)).symm

abbrev MCanonAt (t : MTbl) (k : Nat) : Prop :=
  ∀ u v, t.Mem u → t.Mem v → t.nvars ≤ k + min (t.levelOf u) (t.levelOf v) →
    (∀ a, MValid t a → denM t u a = denM t v a) → u = v

/-- all successors equal (as references) contradicts `not_const` -/
theorem kids_all_eq_absurd (t : MTbl) (hw : MWF t) (u : Nat) (n : MNd) (hn : t.node? u = some n)
    (c0 : Int) (h : ∀ c ∈ n.kids, c = c0) : False := by
  obtain ⟨k, hk, k', hk', hne⟩ := hw.not_const _ _ hn
  exact hne ((h k hk).trans (h k' hk').symm)

/-- a positive node is never equal (as a function) to the terminal -/
theorem mcanon_term_node (t : MTbl) (hw : MWFU t) (k : Nat) (ih : MCanonAt t k)
    (v : Int) (n : MNd) (hpos : 0 < v) (h1 : v.natAbs ≠ 1) (hn : t.node? v.natAbs = some n)
    (hb : t.nvars ≤ k + 1 + n.lvl) (he : ∀ a, MValid t a → denM t v a = true) : False := by
  have hW := hw.toMWF
  apply kids_all_eq_absurd t hW _ n hn 1
  intro c hc
  obtain ⟨j, hj, hcj⟩ := List.getElem_of_mem hc
  have hcj' : n.kids[j]? = some c := by simp [List.getElem?_eq_getElem hj, hcj]
  apply ih c 1 (hW.kids_mem _ _ hn c hc) (Or.inl rfl)
  · have := hW.kids_lt _ _ hn c hc
    have : t.levelOf 1 = t.nvars := t.levelOf_term 1 rfl
    have := t.levelOf_le hW c
    omega
  · intro a ha
    rw [denM_kid_eq t hW v n hpos h1 hn j c hcj' a, denM_one]
    apply he
    exact ha.mupd _ _ (by rw [← hW.kids_len _ _ hn]; exact hj)

/-- a positive node cannot equal (as a function) a reference that starts lower -/
theorem mcanon_lt (t : MTbl) (hw : MWFU t) (k : Nat) (ih : MCanonAt t k)
    (u v : Int) (n : MNd) (hpos : 0 < u) (h1 : u.natAbs ≠ 1) (hn : t.node? u.natAbs = some n)
    (hv : t.Mem v) (hlt : n.lvl < t.levelOf v)
    (hb : t.nvars ≤ k + 1 + n.lvl) (he : ∀ a, MValid t a → denM t u a = denM t v a) : False := by
  have hW := hw.toMWF
  obtain ⟨k0, rest, hk0, _⟩ := hW.head_pos _ _ hn
  have hk0m : k0 ∈ n.kids := by simp [hk0]
  have hk00 : n.kids[0]? = some k0 := by simp [hk0]
  have h0len : 0 < n.kids.length := by simp [hk0]
  apply kids_all_eq_absurd t hW _ n hn k0
  intro c hc
  obtain ⟨j, hj, hcj⟩ := List.getElem_of_mem hc
  have hcj' : n.kids[j]? = some c := by simp [List.getElem?_eq_getElem hj, hcj]
  apply ih c k0 (hW.kids_mem _ _ hn c hc) (hW.kids_mem _ _ hn k0 hk0m)
  · have := hW.kids_lt _ _ hn c hc
    have := hW.kids_lt _ _ hn k0 hk0m
    omega
  · intro a ha
    have hlen := hW.kids_len _ _ hn
    rw [denM_kid_eq t hW u n hpos h1 hn j c hcj' a, denM_kid_eq t hW u n hpos h1 hn 0 k0 hk00 a,
      he _ (ha.mupd _ _ (by rw [← hlen]; exact hj)), he _ (ha.mupd _ _ (by rw [← hlen]; exact h0len)),
      denM_indep' t hW v hv n.lvl j a hlt, denM_indep' t hW v hv n.lvl 0 a hlt]

theorem mcanon_pos (t : MTbl) (hw : MWFU t) (k : Nat) (ih : MCanonAt t k)
    (u v : Int) (hu : 0 < u) (hv : 0 < v) (hmu : t.Mem u) (hmv : t.Mem v)
    (hb : t.nvars ≤ k + 1 + min (t.levelOf u) (t.levelOf v))
    (he : ∀ a, MValid t a → denM t u a = denM t v a) : u = v := by
  have hW := hw.toMWF
  by_cases hu1 : u.natAbs = 1
  · have hu' : u = 1 := by omega
    by_cases hv1 : v.natAbs = 1
    · omega
    · exfalso
      rcases hmv with h | h
      · exact hv1 h
      · obtain ⟨n, hn⟩ := Option.isSome_iff_exists.mp h
        have hl := t.levelOf_node v n hv1 hn
        have hlu := t.levelOf_term u hu1
        have := hW.lvl_lt _ _ hn
        refine mcanon_term_node t hw k ih v n hv hv1 hn (by omega) ?_
        intro a ha; rw [← he a ha, hu', denM_one]
  · rcases hmu with h | h
    · exact absurd h hu1
    · obtain ⟨nu, hnu⟩ := Option.isSome_iff_exists.mp h
      have hlu := t.levelOf_node u nu hu1 hnu
      have hltu := hW.lvl_lt _ _ hnu
      by_cases hv1 : v.natAbs = 1
      · exfalso
        have hv' : v = 1 := by omega
        have hlv := t.levelOf_term v hv1
        refine mcanon_term_node t hw k ih u nu hu hu1 hnu (by omega) ?_
        intro a ha; rw [he a ha, hv', denM_one]
      · rcases hmv with h' | h'
        · exact absurd h' hv1
        · obtain ⟨nv, hnv⟩ := Option.isSome_iff_exists.mp h'
          have hlv := t.levelOf_node v nv hv1 hnv
          have hltv := hW.lvl_lt _ _ hnv
          rcases Nat.lt_trichotomy nu.lvl nv.lvl with hlt | heq | hgt
          · exfalso
            exact mcanon_lt t hw k ih u v nu hu hu1 hnu (Or.inr h') (by omega) (by omega) he
          · -- same level: successors are pairwise equal
            have hlenu := hW.kids_len _ _ hnu
            have hlenv := hW.kids_len _ _ hnv
            have hkids : nu.kids = nv.kids := by
              apply List.ext_getElem?
              intro j
              by_cases hj : j < nu.kids.length
              · have hj' : j < nv.kids.length := by rw [hlenv, ← heq, ← hlenu]; exact hj
                have e1 : nu.kids[j]? = some nu.kids[j] := List.getElem?_eq_getElem hj
                have e2 : nv.kids[j]? = some nv.kids[j] := List.getElem?_eq_getElem hj'
                rw [e1, e2]
                congr 1
                have m1 := List.getElem_mem hj
                have m2 := List.getElem_mem hj'
                apply ih _ _ (hW.kids_mem _ _ hnu _ m1) (hW.kids_mem _ _ hnv _ m2)
                · have := hW.kids_lt _ _ hnu _ m1
                  have := hW.kids_lt _ _ hnv _ m2
                  omega
                · intro a ha
                  rw [denM_kid_eq t hW u nu hu hu1 hnu j _ e1 a, denM_kid_eq t hW v nv hv hv1 hnv j _ e2 a,
                    heq]
                  apply he
                  exact ha.mupd _ _ (by rw [← hlenv]; exact hj')
              · have hj' : ¬ j < nv.kids.length := by rw [hlenv, ← heq, ← hlenu]; exact hj
                rw [List.getElem?_eq_none (by omega), List.getElem?_eq_none (by omega)]
            have hnd : nu = nv := by
              cases nu; cases nv; simp_all
            have := hw.unique _ _ _ hnu (hnd ▸ hnv)
            omega
          · exfalso
            exact mcanon_lt t hw k ih v u nv hv hv1 hnv (Or.inr h) (by omega) (by omega)
              (fun a ha => (he a ha).symm)

theorem mcanon_all (t : MTbl) (hw : MWFU t) (hpos : ∀ i, i < t.nvars → 0 < t.arity i) :
    ∀ k, MCanonAt t k := by
  have hW := hw.toMWF
  have hz := mvalid_zero t hpos
  intro k
  induction k with
  | zero =>
    intro u v hmu hmv hb he
    have h1 := t.levelOf_le hW u
    have h2 := t.levelOf_le hW v
    have hs1 := denM_allzero t hW t.nvars u hmu (by omega)
    have hs2 := denM_allzero t hW t.nvars v hmv (by omega)
    rw [he _ hz] at hs1
    have hsign : decide (0 < u) = decide (0 < v) := hs1.symm.trans hs2
    have tu : u.natAbs = 1 := by
      by_cases hc : u.natAbs = 1
      · exact hc
      · exfalso
        rcases hmu with h | h
        · exact hc h
        · obtain ⟨n, hn⟩ := Option.isSome_iff_exists.mp h
          have := t.levelOf_node u n hc hn
          have := hW.lvl_lt _ _ hn
          omega
    have tv : v.natAbs = 1 := by
      by_cases hc : v.natAbs = 1
      · exact hc
      · exfalso
        rcases hmv with h | h
        · exact hc h
        · obtain ⟨n, hn⟩ := Option.isSome_iff_exists.mp h
          have := t.levelOf_node v n hc hn
          have := hW.lvl_lt _ _ hn
          omega
    rcases mabs_one tu with h | h <;> rcases mabs_one tv with h' | h' <;> subst h <;> subst h' <;>
      simp at hsign <;> rfl
  | succ k ih =>
    intro u v hmu hmv hb he
    have hs1 := denM_allzero t hW t.nvars u hmu (by have := t.levelOf_le hW u; omega)
    have hs2 := denM_allzero t hW t.nvars v hmv (by have := t.levelOf_le hW v; omega)
    rw [he _ hz] at hs1
    have hsign : decide (0 < u) = decide (0 < v) := hs1.symm.trans hs2
    have hu0 := t.mem_ne_zero hW hmu
    have hv0 := t.mem_ne_zero hW hmv
    by_cases hp : 0 < u
    · have hpv : 0 < v := by simpa [hp] using hsign
      exact mcanon_pos t hw k ih u v hp hpv hmu hmv (by omega) he
    · have hpv : ¬ 0 < v := by simpa [hp] using hsign
      have : -u = -v := by
        apply mcanon_pos t hw k ih (-u) (-v) (by omega) (by omega) (MTbl.mem_neg hmu) (MTbl.mem_neg hmv)
        · rw [t.levelOf_neg, t.levelOf_neg]; omega
        · intro a ha; rw [denM_neg t hW u a hmu, denM_neg t hW v a hmv, he a ha]
      omega

/-- canonicity: equal functions (on the valid integer assignments) ⇔ equal references -/
theorem mcanonical (t : MTbl) (hw : MWFU t) (hpos : ∀ i, i < t.nvars → 0 < t.arity i)
    (u v : Int) (hu : t.Mem u) (hv : t.Mem v) :
    (∀ a, MValid t a → denM t u a = denM t v a) ↔ u = v := by
  constructor
  · exact mcanon_all t hw hpos t.nvars u v hu hv (by omega)
  · intro h; subst h; intro a _; rfl

end DD
