/-
  DDProofs.Image — specification of `_image(u, v, umap, vmap, qvars, bdd, forall, cache)`, the
  recursion behind `image` and `preimage`: simultaneous descent on the pair `(u, v)` (memo keyed
  by the pair), the second operand read through the level map `vmap` (renaming BEFORE the
  conjunction), quantification at the levels of `qvars`, the other levels rebuilt at the level
  given by `umap` (renaming AFTER the quantification) with `ite(var, q, p)`.

  One theorem (`imageF_spec`) covers both uses; `imageF_spec_image` (`vmap = None`) and
  `imageF_spec_preimage` (`umap = None`) are its two instances.
-/
import DDProofs.SubstWrappers
open Std

namespace DD

/-! ### support and extension -/

/-- the support of a reference of the smaller table is the same in an extension -/
theorem InSupp.of_ext {m t : Tbl} (hw : WF m) (he : Ext m t) {u : Int} {i : Nat}
    (h : InSupp t u i) : m.Mem u → InSupp m u i := by
  induction h with
  | here h1 hn =>
    intro hm
    obtain ⟨n', hn'⟩ := mem_node hm h1
    have := he.nodes _ _ hn'
    rw [hn] at this
    cases this
    exact .here h1 hn'
  | lo h1 hn _ ih =>
    intro hm
    obtain ⟨n', hn'⟩ := mem_node hm h1
    have := he.nodes _ _ hn'
    rw [hn] at this
    cases this
    exact .lo h1 hn' (ih (hw.lo_mem _ _ hn'))
  | hi h1 hn _ ih =>
    intro hm
    obtain ⟨n', hn'⟩ := mem_node hm h1
    have := he.nodes _ _ hn'
    rw [hn] at this
    cases this
    exact .hi h1 hn' (ih (hw.hi_mem _ _ hn'))

theorem InSupp.of_neg {t : Tbl} {u : Int} {i : Nat} (h : InSupp t (-u) i) : InSupp t u i := by
  have := h.neg
  rwa [Int.neg_neg] at this

/-- the cofactors returned by `_top_cofactor` have their support inside the operand's -/
theorem topCofactor_supp (t : Tbl) (u : Int) (z : Nat) (u0 u1 : Int)
    (h : topCofactor t u z = .ok (u0, u1)) (j : Nat) :
    (InSupp t u0 j → InSupp t u j) ∧ (InSupp t u1 j → InSupp t u j) := by
  unfold topCofactor at h
  by_cases h1 : u.natAbs = 1
  · simp only [h1, if_true] at h
    cases h
    exact ⟨id, id⟩
  · simp only [h1, if_false] at h
    cases hn : t.succ[u.natAbs]? with
    | none => rw [hn] at h; cases h
    | some n =>
      rw [hn] at h
      simp only at h
      have hn' : t.node? u.natAbs = some n := hn
      split at h
      · cases h; exact ⟨id, id⟩
      · split at h
        · cases h
        · split at h
          · cases h
            exact ⟨fun hh => .lo h1 hn' hh.of_neg, fun hh => .hi h1 hn' hh.of_neg⟩
          · cases h
            exact ⟨fun hh => .lo h1 hn' hh, fun hh => .hi h1 hn' hh⟩

/-! ### `_top_cofactor` with an integer level argument -/

theorem topCofactorI_nat (t : Tbl) (u : Int) (z : Nat) :
    topCofactorI t u (z : Int) = topCofactor t u z := by
  unfold topCofactorI
  have : ¬ ((z : Int) < 0) := by omega
  simp only [this, if_false, Int.toNat_natCast]

/-- a level argument above the reference's own level (possibly negative): no split -/
theorem topCofactorI_lt (t : Tbl) (u : Int) (hu : t.Mem u) (i : Int)
    (hi : i < (t.levelOf u : Int)) : topCofactorI t u i = .ok (u, u) := by
  unfold topCofactorI
  by_cases hneg : i < 0
  · simp only [hneg, if_true]
    by_cases h1 : u.natAbs = 1
    · simp [h1]
    · simp only [h1, if_false]
      obtain ⟨n, hn⟩ := mem_node hu h1
      have hn' : t.succ[u.natAbs]? = some n := hn
      rw [hn']
  · simp only [hneg, if_false]
    unfold topCofactor
    by_cases h1 : u.natAbs = 1
    · simp [h1]
    · simp only [h1, if_false]
      obtain ⟨n, hn⟩ := mem_node hu h1
      have hn' : t.succ[u.natAbs]? = some n := hn
      rw [hn']
      simp only
      have hl := levelOf_node t u n h1 hn
      have : i.toNat < n.lvl := by omega
      simp only [this, if_true]

/-! ### quantification of constant functions -/

theorem qsem_const_false (fa : Bool) (Q : List Nat) (f : Asg → Bool) (a : Asg)
    (h : ∀ b, f b = false) : ¬ qsem fa Q f a := by
  cases fa with
  | true =>
    intro hq
    have := hq a (AgreeOff.refl Q a)
    rw [h] at this
    cases this
  | false =>
    rintro ⟨b, _, hb⟩
    rw [h] at hb
    cases hb

theorem qsem_const_true (fa : Bool) (Q : List Nat) (f : Asg → Bool) (a : Asg)
    (h : ∀ b, f b = true) : qsem fa Q f a := by
  cases fa with
  | true => exact fun b _ => h b
  | false => exact ⟨a, AgreeOff.refl Q a, h a⟩

/-! ### the second operand, read through its level map, at the descent level -/

/-- cofactors of the renamed second operand at the descent level `z ≤ iv`, where `iv` is the
level the top variable of `v` is renamed to: a real split when `z = iv`, no split when `z < iv`
(the level argument `jv + z - iv` is then above `v`, possibly negative).  The level map is
strictly increasing on the support, so the cofactors (renamed) do not depend on `z`. -/
theorem vCofactor_spec (t : Tbl) (hw : WF t) (rV : Nat → Nat) (S : Nat → Prop)
    (hmono : ∀ j j', S j → S j' → j < j' → rV j < rV j')
    (v : Int) (hv : t.Mem v) (hS : ∀ j, InSupp t v j → S j) (iv z : Nat)
    (hiv : v.natAbs ≠ 1 → iv = rV (t.levelOf v)) (hivt : v.natAbs = 1 → t.nvars ≤ iv)
    (hz : z ≤ iv) (hzn : z < t.nvars) :
    ∃ v0 v1, topCofactorI t v ((t.levelOf v : Int) + z - iv) = .ok (v0, v1) ∧
      t.Mem v0 ∧ t.Mem v1 ∧ t.levelOf v ≤ t.levelOf v0 ∧ t.levelOf v ≤ t.levelOf v1 ∧
      (z = iv → t.levelOf v < t.levelOf v0 ∧ t.levelOf v < t.levelOf v1) ∧
      (∀ j, InSupp t v0 j → InSupp t v j) ∧ (∀ j, InSupp t v1 j → InSupp t v j) ∧
      (∀ b : Asg, den t v (fun j => b (rV j)) =
          if b z then den t v1 (fun j => b (rV j)) else den t v0 (fun j => b (rV j))) ∧
      (∀ (b : Asg) x, den t v0 (fun j => (upd b z x) (rV j)) = den t v0 (fun j => b (rV j))) ∧
      (∀ (b : Asg) x, den t v1 (fun j => (upd b z x) (rV j)) = den t v1 (fun j => b (rV j))) := by
  by_cases hzi : z = iv
  · -- a real split: `v` is a node, labelled with the level that is renamed to `z`
    have hv1 : v.natAbs ≠ 1 := by
      intro h; have := hivt h; omega
    obtain ⟨n, hn⟩ := mem_node hv hv1
    have hl := levelOf_node t v n hv1 hn
    have harg : ((t.levelOf v : Int) + z - iv) = ((t.levelOf v : Nat) : Int) := by omega
    rw [harg, topCofactorI_nat]
    obtain ⟨v0, v1, hc, m0, m1, l0, l1, dv⟩ := topCofactor_spec t hw v hv (t.levelOf v)
      (Nat.le_refl _) (by rw [hl]; exact hw.lvl_lt _ _ hn)
    have hsup := topCofactor_supp t v (t.levelOf v) v0 v1 hc
    have hSv : S (t.levelOf v) := by rw [hl]; exact hS _ (.here hv1 hn)
    have hzr : z = rV (t.levelOf v) := by rw [hzi]; exact hiv hv1
    have hind : ∀ w, t.Mem w → t.levelOf v < t.levelOf w → (∀ j, InSupp t w j → InSupp t v j) →
        ∀ (b : Asg) x, den t w (fun j => (upd b z x) (rV j)) = den t w (fun j => b (rV j)) := by
      intro w mw lw sw b x
      apply den_agree_supp t hw w mw
      intro j hj
      have h1 : t.levelOf w ≤ j := hj.ge hw
      have h2 := hmono _ _ hSv (hS j (sw j hj)) (by omega)
      exact upd_other _ _ _ _ (by omega)
    refine ⟨v0, v1, hc, m0, m1, by omega, by omega, fun _ => ⟨l0, l1⟩,
      fun j => (hsup j).1, fun j => (hsup j).2, ?_,
      hind v0 m0 l0 (fun j => (hsup j).1), hind v1 m1 l1 (fun j => (hsup j).2)⟩
    intro b
    rw [dv, hzr]
  · -- no split: the level argument is above `v`
    have hlt : z < iv := by omega
    have harg : ((t.levelOf v : Int) + z - iv) < (t.levelOf v : Int) := by omega
    rw [topCofactorI_lt t v hv _ harg]
    have hind : ∀ (b : Asg) x, den t v (fun j => (upd b z x) (rV j)) = den t v (fun j => b (rV j)) := by
      intro b x
      apply den_agree_supp t hw v hv
      intro j hj
      have h1 : t.levelOf v ≤ j := hj.ge hw
      have hv1 : v.natAbs ≠ 1 := by
        intro h
        have := hj.lt_nvars hw
        rw [levelOf_term t v h] at h1
        omega
      obtain ⟨n, hn⟩ := mem_node hv hv1
      have hl := levelOf_node t v n hv1 hn
      have hSv : S (t.levelOf v) := by rw [hl]; exact hS _ (.here hv1 hn)
      have hivE := hiv hv1
      have : z < rV j := by
        by_cases hjl : j = t.levelOf v
        · rw [hjl]; omega
        · have := hmono _ _ hSv (hS j hj) (by omega)
          omega
      exact upd_other _ _ _ _ (by omega)
    refine ⟨v, v, rfl, hv, hv, Nat.le_refl _, Nat.le_refl _, fun h => absurd h hzi,
      fun _ => id, fun _ => id, ?_, hind, hind⟩
    intro b
    split <;> rfl

/-! ### what `_image` computes -/

/-- the function `_image` has to return for the pair `(u, v)`: the conjunction of `u` with `v`
read through `rV` (renaming of `v` BEFORE the conjunction), quantified over the levels of `Q`,
then read through `rU` (renaming AFTER the quantification) -/
def imgSem (fa : Bool) (Q : List Nat) (rU rV : Nat → Nat) (t : Tbl) (u v : Int) (a : Asg) : Prop :=
  qsem fa Q (fun b => den t u b && den t v (fun j => b (rV j))) (fun z => a (rU z))

/-- what `_image` guarantees about the reference it returns for `(u, v)` (also: what its memo
may contain) -/
structure IPost (fa : Bool) (Q : List Nat) (rU rV : Nat → Nat) (t : Tbl) (u v r : Int) : Prop where
  mu : t.Mem u
  mv : t.Mem v
  mr : t.Mem r
  den : ∀ a, den t r a = true ↔ imgSem fa Q rU rV t u v a

/-- the memo is keyed by the pair of signed references -/
def IMemo (fa : Bool) (Q : List Nat) (rU rV : Nat → Nat) (t : Tbl)
    (c : HashMap (Int × Int) Int) : Prop :=
  ∀ (u v r : Int), c[(u, v)]? = some r → IPost fa Q rU rV t u v r

theorem imgSem_ext {fa : Bool} {Q : List Nat} {rU rV : Nat → Nat} {m t : Tbl} (he : Ext m t)
    (hw : WF m) {u v : Int} (hu : m.Mem u) (hv : m.Mem v) (a : Asg) :
    imgSem fa Q rU rV t u v a ↔ imgSem fa Q rU rV m u v a := by
  unfold imgSem
  rw [den_ext_fun he hw u hu, den_ext_fun he hw v hv]

theorem IPost.ext {fa : Bool} {Q : List Nat} {rU rV : Nat → Nat} {m t : Tbl} (hw : WF m)
    (he : Ext m t) {u v r : Int} (h : IPost fa Q rU rV m u v r) : IPost fa Q rU rV t u v r := by
  refine ⟨he.mem h.mu, he.mem h.mv, he.mem h.mr, ?_⟩
  intro a
  rw [den_ext he hw r a h.mr, imgSem_ext he hw h.mu h.mv]
  exact h.den a

theorem IMemo.ext {fa : Bool} {Q : List Nat} {rU rV : Nat → Nat} {m t : Tbl} (hw : WF m)
    (he : Ext m t) {c : HashMap (Int × Int) Int} (h : IMemo fa Q rU rV m c) :
    IMemo fa Q rU rV t c :=
  fun u v r hc => (h u v r hc).ext hw he

theorem IMemo.empty (fa : Bool) (Q : List Nat) (rU rV : Nat → Nat) (t : Tbl) :
    IMemo fa Q rU rV t {} := by
  intro u v r h
  simp at h

theorem IMemo.insert {fa : Bool} {Q : List Nat} {rU rV : Nat → Nat} {t : Tbl}
    {c : HashMap (Int × Int) Int} (h : IMemo fa Q rU rV t c) {u v r : Int}
    (he : IPost fa Q rU rV t u v r) : IMemo fa Q rU rV t (c.insert (u, v) r) := by
  intro u' v' r' hc
  rw [HashMap.getElem?_insert] at hc
  split at hc
  · next heq =>
    have : (u, v) = (u', v') := by simpa using heq
    cases this
    cases hc
    exact he
  · exact h u' v' r' hc

/-- what one run of `_image` needs from its two level maps (`N` = number of declared variables,
`S` = a set of levels containing the support of the second operand):
* `umap` sends every level that is not quantified to a declared level (`rU`);
* `vmap` sends every level of `S` to a declared level (`rV`), is STRICTLY INCREASING on `S`
  (the code's "neighbours" assumption is used only through this), and does not move the
  terminal's level `N`;
* no such level is a key whose value is not a level (`ubad`, `vbad`: undeclared names). -/
structure ImgOK (umap vmap : Option (List (Int × Int))) (ubad vbad : List Int) (Q : List Nat)
    (rU rV : Nat → Nat) (S : Nat → Prop) (N : Nat) : Prop where
  uval : ∀ z, z < N → z ∉ Q → mapLvl umap (z : Int) = (rU z : Int) ∧ rU z < N
  vval : ∀ j, S j → mapLvl vmap (j : Int) = (rV j : Int) ∧ rV j < N
  vterm : mapLvl vmap (N : Int) = (N : Int)
  mono : ∀ j j', S j → S j' → j < j' → rV j < rV j'
  ubad : ∀ z, z < N → z ∉ Q → ubad.contains (z : Int) = false
  vbad : ∀ j, S j ∨ j = N → vbad.contains (j : Int) = false

/-- `_image`: with reordering not enabled the recursion is total, only adds nodes, keeps its
memo (keyed by the pair) sound, and returns the reference of
`rename_U (Q qvars. u ∧ rename_V v)`.  No condition relates the variable order to `umap`: the
result at a level that is not quantified is built with `ite(var, q, p)`. -/
theorem imageF_spec (umap vmap : Option (List (Int × Int))) (ubad vbad : List Int) (Q : List Nat)
    (fa : Bool) (rU rV : Nat → Nat) (S : Nat → Prop) (N : Nat)
    (hP : ImgOK umap vmap ubad vbad Q rU rV S N) :
    ∀ (f : Nat) (m : Mgr) (u v : Int) (cache : HashMap (Int × Int) Int),
    Inv m → m.lastLen = none → m.nvars = N → m.tbl.Mem u → m.tbl.Mem v →
    (∀ j, InSupp m.tbl v j → S j) → IMemo fa Q rU rV m.tbl cache →
    2 * m.nvars + 1 ≤ f + m.tbl.levelOf u + m.tbl.levelOf v →
    ∃ r c' m', imageF umap vmap ubad vbad Q fa f u v cache m = (.ok (r, c'), m') ∧ Step m m' ∧
      IMemo fa Q rU rV m'.tbl c' ∧ IPost fa Q rU rV m'.tbl u v r := by
  intro f
  induction f with
  | zero =>
    intro m u v cache hI _ _ _ _ _ _ hf
    have := levelOf_le m.tbl hI.wf.toWF u
    have := levelOf_le m.tbl hI.wf.toWF v
    have : m.nvars = m.tbl.nvars := rfl
    omega
  | succ f ih =>
    intro m u v cache hI hoff hN hu hv hS hmemo hf
    have hW := hI.wf.toWF
    have hnv : m.nvars = m.tbl.nvars := rfl
    unfold imageF
    by_cases hneg : u = -1 ∨ v = -1
    · simp only [hneg, if_true]
      refine ⟨-1, cache, m, rfl, Step.refl hI, hmemo, hu, hv, mem_neg_one _, ?_⟩
      intro a
      rw [den_neg_one]
      constructor
      · intro h; cases h
      · intro h
        exfalso
        refine qsem_const_false fa Q _ _ ?_ h
        intro b
        rcases hneg with h | h <;> subst h <;> simp [den_neg_one]
    · simp only [hneg, if_false]
      by_cases hone : u = 1 ∧ v = 1
      · obtain ⟨hu1, hv1⟩ := hone
        subst hu1 hv1
        simp only [and_self, if_true]
        refine ⟨1, cache, m, rfl, Step.refl hI, hmemo, hu, hv, mem_one _, ?_⟩
        intro a
        rw [den_one]
        refine ⟨fun _ => ?_, fun _ => rfl⟩
        refine qsem_const_true fa Q _ _ ?_
        intro b
        simp [den_one]
      · simp only [hone, if_false]
        cases hc : cache[(u, v)]? with
        | some r => exact ⟨r, cache, m, rfl, Step.refl hI, hmemo, hmemo u v r hc⟩
        | none =>
          simp only
          rw [Tbl.levelOf?_eq _ _ hu, Tbl.levelOf?_eq _ _ hv]
          simp only
          -- the level the top variable of `v` is renamed to
          obtain ⟨ivN, hivE, hivnt, hivt⟩ : ∃ ivN : Nat,
              mapLvl vmap (m.tbl.levelOf v : Int) = (ivN : Int) ∧
              (v.natAbs ≠ 1 → ivN = rV (m.tbl.levelOf v) ∧ ivN < N) ∧
              (v.natAbs = 1 → ivN = N) := by
            by_cases hv1 : v.natAbs = 1
            · refine ⟨N, ?_, fun h => absurd hv1 h, fun _ => rfl⟩
              rw [levelOf_term _ _ hv1, ← hnv, hN]; exact hP.vterm
            · obtain ⟨n, hn⟩ := mem_node hv hv1
              have hl := levelOf_node m.tbl v n hv1 hn
              have hs : S n.lvl := hS _ (.here hv1 hn)
              obtain ⟨h1, h2⟩ := hP.vval _ hs
              exact ⟨rV n.lvl, by rw [hl]; exact h1, fun _ => by rw [hl]; exact ⟨rfl, h2⟩,
                fun h => absurd h hv1⟩
          have hvb : vbad.contains (m.tbl.levelOf v : Int) = false := by
            apply hP.vbad
            by_cases hv1 : v.natAbs = 1
            · right; rw [levelOf_term _ _ hv1, ← hnv, hN]
            · left
              obtain ⟨n, hn⟩ := mem_node hv hv1
              rw [levelOf_node m.tbl v n hv1 hn]
              exact hS _ (.here hv1 hn)
          simp only [hvb, Bool.false_eq_true, if_false]
          rw [hivE]
          generalize hzN : min (m.tbl.levelOf u) ivN = zN
          have hzE : min ((m.tbl.levelOf u : Nat) : Int) (ivN : Int) = (zN : Int) := by omega
          rw [hzE]
          -- not both operands are terminals
          have hzlt : zN < N := by
            by_cases hu1 : u.natAbs = 1
            · have hu' : u = 1 := by
                rcases abs_one hu1 with h | h
                · exact h
                · exact absurd (Or.inl h) hneg
              have hv1 : v.natAbs ≠ 1 := by
                intro hv1
                rcases abs_one hv1 with h | h
                · exact hone ⟨hu', h⟩
                · exact hneg (Or.inr h)
              have := (hivnt hv1).2
              omega
            · obtain ⟨n, hn⟩ := mem_node hu hu1
              have := levelOf_lt_of_node hW hu1 hn
              omega
          rw [topCofactorI_nat]
          obtain ⟨u0, u1, hcu, mu0, mu1, lu0, lu1, du⟩ := topCofactor_spec m.tbl hW u hu zN
            (by omega) (by omega)
          obtain ⟨lu0', lu1'⟩ := topCofactor_lvl m.tbl hW u zN u0 u1 hcu
          rw [hcu]
          simp only
          obtain ⟨v0, v1, hcv, mv0, mv1, lv0', lv1', lv01, sv0, sv1, dv, iv0, iv1⟩ :=
            vCofactor_spec m.tbl hW rV S hP.mono v hv hS ivN zN
              (fun h => (hivnt h).1) (fun h => by rw [hivt h]; omega) (by omega) (by omega)
          rw [hcv]
          simp only
          obtain ⟨p, c1, m1, he1, hs1, hm1, hp1⟩ := ih m u0 v0 cache hI hoff hN mu0 mv0
            (fun j h => hS j (sv0 j h)) hmemo
            (by
              by_cases hzi : zN = ivN
              · have := (lv01 hzi).1; omega
              · omega)
          rw [he1]
          simp only
          have hW1 := hs1.inv.wf.toWF
          obtain ⟨q, c2, m2, he2, hs2, hm2, hp2⟩ := ih m1 u1 v1 c1 hs1.inv (hs1.off hoff)
            (hs1.nvars.trans hN) (hs1.ext.mem mu1) (hs1.ext.mem mv1)
            (fun j h => hS j (sv1 j (h.of_ext hW hs1.ext mv1))) hm1
            (by
              rw [hs1.nvars, hs1.ext.levelOf mu1, hs1.ext.levelOf mv1]
              by_cases hzi : zN = ivN
              · have := (lv01 hzi).2; omega
              · omega)
          rw [he2]
          simp only
          have hW2 := hs2.inv.wf.toWF
          have hs12 := hs1.trans hs2
          have hoff2 := hs12.off hoff
          have hp1' := hp1.ext hW1 hs2.ext
          -- the results of the two recursive calls, in any later table, in terms of `m.tbl`
          have hpd : ∀ t, Ext m2.tbl t → ∀ a, den t p a = true ↔ imgSem fa Q rU rV m.tbl u0 v0 a := by
            intro t he a
            rw [den_ext he hW2 p a hp1'.mr, hp1'.den a, imgSem_ext hs12.ext hW mu0 mv0]
          have hqd : ∀ t, Ext m2.tbl t → ∀ a, den t q a = true ↔ imgSem fa Q rU rV m.tbl u1 v1 a := by
            intro t he a
            rw [den_ext he hW2 q a hp2.mr, hp2.den a, imgSem_ext hs12.ext hW mu1 mv1]
          -- Shannon expansion of the conjunction at the descent level
          have hF : ∀ b : Asg, (den m.tbl u b && den m.tbl v (fun j => b (rV j))) =
              if b zN then (den m.tbl u1 b && den m.tbl v1 (fun j => b (rV j)))
              else (den m.tbl u0 b && den m.tbl v0 (fun j => b (rV j))) := by
            intro b
            rw [du b, dv b]
            cases b zN <;> simp
          -- common conclusion, given the combining step
          have hfin : ∀ r3 m3, Step m2 m3 → m3.tbl.Mem r3 →
              (∀ a, den m3.tbl r3 a = true ↔ imgSem fa Q rU rV m.tbl u v a) →
              ∃ r c' m', ((Except.ok (r3, c2.insert (u, v) r3), m3) :
                  Except Err (Int × HashMap (Int × Int) Int) × Mgr) = (Except.ok (r, c'), m') ∧
                Step m m' ∧ IMemo fa Q rU rV m'.tbl c' ∧ IPost fa Q rU rV m'.tbl u v r := by
            intro r3 m3 hs3 hr3 hd3
            have hs := hs12.trans hs3
            have hent : IPost fa Q rU rV m3.tbl u v r3 :=
              ⟨hs.ext.mem hu, hs.ext.mem hv, hr3, fun a => by
                rw [hd3 a, imgSem_ext hs.ext hW hu hv]⟩
            exact ⟨r3, _, m3, rfl, hs, (hm2.ext hW2 hs3.ext).insert hent, hent⟩
          have h0z : (0 : Int) ≤ (zN : Int) := by omega
          simp only [h0z, true_and, Int.toNat_natCast]
          by_cases hq : zN ∈ Q
          · have hqc : Q.contains zN = true := by simpa using hq
            simp only [hqc, if_true]
            -- the cofactors of the conjunction do not depend on the quantified level
            have hi0 : ∀ (b : Asg) x, (den m.tbl u0 (upd b zN x) &&
                den m.tbl v0 (fun j => (upd b zN x) (rV j))) =
                (den m.tbl u0 b && den m.tbl v0 (fun j => b (rV j))) := by
              intro b x
              rw [den_indep' m.tbl hW u0 mu0 zN x b lu0, iv0 b x]
            have hi1 : ∀ (b : Asg) x, (den m.tbl u1 (upd b zN x) &&
                den m.tbl v1 (fun j => (upd b zN x) (rV j))) =
                (den m.tbl u1 b && den m.tbl v1 (fun j => b (rV j))) := by
              intro b x
              rw [den_indep' m.tbl hW u1 mu1 zN x b lu1, iv1 b x]
            cases fa with
            | true =>
              simp only [if_true]
              obtain ⟨r3, m3, he3, hp3⟩ := ite_spec_off m2 hs2.inv hoff2 p q (-1)
                hp1'.mr hp2.mr (mem_neg_one _)
              rw [he3]
              simp only
              refine hfin r3 m3 hp3.step hp3.mem ?_
              intro a
              unfold imgSem
              rw [qsem_split_in true Q _ _ _ zN hq hF hi0 hi1]
              simp only
              rw [hp3.den a, den_neg_one, bool_and_true_iff]
              exact and_congr (hpd m2.tbl (Ext.refl _) a) (hqd m2.tbl (Ext.refl _) a)
            | false =>
              simp only [Bool.false_eq_true, if_false]
              obtain ⟨r3, m3, he3, hp3⟩ := ite_spec_off m2 hs2.inv hoff2 p 1 q
                hp1'.mr (mem_one _) hp2.mr
              rw [he3]
              simp only
              refine hfin r3 m3 hp3.step hp3.mem ?_
              intro a
              unfold imgSem
              rw [qsem_split_in false Q _ _ _ zN hq hF hi0 hi1]
              simp only
              rw [hp3.den a, den_one, bool_or_true_iff]
              exact or_congr (hpd m2.tbl (Ext.refl _) a) (hqd m2.tbl (Ext.refl _) a)
          · have hqc : Q.contains zN = false := by simpa using hq
            simp only [hqc, Bool.false_eq_true, if_false]
            obtain ⟨hmE, hmlt⟩ := hP.uval zN hzlt hq
            simp only [hP.ubad zN hzlt hq, Bool.false_eq_true, if_false]
            rw [hmE]
            obtain ⟨g, m3, he3, hs3, hg3, _, hd3⟩ := varNode_off m2 hs2.inv hoff2 (rU zN)
              (by rw [hs12.nvars, hN]; exact hmlt)
            rw [he3]
            simp only
            have hW3 := hs3.inv.wf.toWF
            obtain ⟨r4, m4, he4, hp4⟩ := ite_spec_off m3 hs3.inv (hs3.off hoff2) g q p
              hg3 (hs3.ext.mem hp2.mr) (hs3.ext.mem hp1'.mr)
            rw [he4]
            simp only
            refine hfin r4 m4 (hs3.trans hp4.step) hp4.mem ?_
            intro a
            unfold imgSem
            rw [qsem_split_out fa Q _ _ _ zN hq hF, hp4.den a, hd3 a]
            by_cases ha : a (rU zN) = true
            · simp only [ha, if_true]
              exact hqd m3.tbl hs3.ext a
            · simp only [ha, Bool.false_eq_true, if_false]
              exact hpd m3.tbl hs3.ext a

/-! ### the two uses -/

/-- `_image` as called by `image` (`umap = rename`, `vmap = None`), ANY variable order, adjacent
pairs or not: the result is the quantified conjunction read through the renaming (renaming AFTER
quantification: a level `z` of the conjunction that is not quantified appears as `ren z`).
The only requirement is that every level that is not quantified is sent to a declared level. -/
theorem imageF_spec_image (rn : List (Int × Int)) (Q : List Nat) (fa : Bool) (ren : Nat → Nat)
    (f : Nat) (m : Mgr) (u v : Int) (cache : HashMap (Int × Int) Int)
    (hI : Inv m) (hoff : m.lastLen = none) (hu : m.tbl.Mem u) (hv : m.tbl.Mem v)
    (hren : ∀ z, z < m.nvars → z ∉ Q →
      (rn.lookup (z : Int)).getD (z : Int) = (ren z : Int) ∧ ren z < m.nvars)
    (hmemo : IMemo fa Q ren id m.tbl cache)
    (hfuel : 2 * m.nvars + 1 ≤ f + m.tbl.levelOf u + m.tbl.levelOf v) :
    ∃ r c' m', imageF (some rn) none [] [] Q fa f u v cache m = (.ok (r, c'), m') ∧
      Inv m' ∧ Ext m.tbl m'.tbl ∧ Frame m m' ∧ IMemo fa Q ren id m'.tbl c' ∧ m'.tbl.Mem r ∧
      ∀ a, den m'.tbl r a = true ↔
        qsem fa Q (fun b => den m.tbl u b && den m.tbl v b) (fun z => a (ren z)) := by
  have hW := hI.wf.toWF
  have hP : ImgOK (some rn) none [] [] Q ren id (fun j => j < m.nvars) m.nvars :=
    ⟨hren, fun j hj => ⟨rfl, hj⟩, rfl, fun _ _ _ _ h => h, fun _ _ _ => rfl, fun _ _ => rfl⟩
  obtain ⟨r, c', m', he, hs, hm, hp⟩ := imageF_spec (some rn) none [] [] Q fa ren id _ m.nvars hP
    f m u v cache hI hoff rfl hu hv (fun j hj => hj.lt_nvars hW) hmemo hfuel
  refine ⟨r, c', m', he, hs.inv, hs.ext, hs.frame, hm, hp.mr, ?_⟩
  intro a
  rw [hp.den a, imgSem_ext hs.ext hW hu hv]
  exact Iff.rfl

/-- `_image` as called by `preimage` (`umap = None`, `vmap = rename`): when the renaming is
strictly increasing on (a set `S` containing) the support of `v`, sends it to declared levels
and does not move the terminal's level, the result is `Q qvars. u ∧ rename(v)` (renaming of `v`
BEFORE the conjunction: level `j` of `v` is read at `rV j`). -/
theorem imageF_spec_preimage (rn : List (Int × Int)) (Q : List Nat) (fa : Bool) (rV : Nat → Nat)
    (S : Nat → Prop) (f : Nat) (m : Mgr) (u v : Int) (cache : HashMap (Int × Int) Int)
    (hI : Inv m) (hoff : m.lastLen = none) (hu : m.tbl.Mem u) (hv : m.tbl.Mem v)
    (hS : ∀ j, InSupp m.tbl v j → S j)
    (hval : ∀ j, S j → (rn.lookup (j : Int)).getD (j : Int) = (rV j : Int) ∧ rV j < m.nvars)
    (hterm : (rn.lookup (m.nvars : Int)).getD (m.nvars : Int) = (m.nvars : Int))
    (hmono : ∀ j j', S j → S j' → j < j' → rV j < rV j')
    (hmemo : IMemo fa Q id rV m.tbl cache)
    (hfuel : 2 * m.nvars + 1 ≤ f + m.tbl.levelOf u + m.tbl.levelOf v) :
    ∃ r c' m', imageF none (some rn) [] [] Q fa f u v cache m = (.ok (r, c'), m') ∧
      Inv m' ∧ Ext m.tbl m'.tbl ∧ Frame m m' ∧ IMemo fa Q id rV m'.tbl c' ∧ m'.tbl.Mem r ∧
      ∀ a, den m'.tbl r a = true ↔
        qsem fa Q (fun b => den m.tbl u b && den m.tbl v (fun j => b (rV j))) a := by
  have hW := hI.wf.toWF
  have hP : ImgOK none (some rn) [] [] Q id rV S m.nvars :=
    ⟨fun z hz _ => ⟨rfl, hz⟩, hval, hterm, hmono, fun _ _ _ => rfl, fun _ _ => rfl⟩
  obtain ⟨r, c', m', he, hs, hm, hp⟩ := imageF_spec none (some rn) [] [] Q fa id rV S m.nvars hP
    f m u v cache hI hoff rfl hu hv hS hmemo hfuel
  refine ⟨r, c', m', he, hs.inv, hs.ext, hs.frame, hm, hp.mr, ?_⟩
  intro a
  rw [hp.den a, imgSem_ext hs.ext hW hu hv]
  exact Iff.rfl

/-! ### the level renaming of a dictionary of level pairs -/

/-- `rn.get(z, z)` as a map on levels (a negative target is read as 0; the theorems below
assume the targets are levels) -/
def renOf (rn : List (Int × Int)) (z : Nat) : Nat :=
  ((rn.lookup (z : Int)).getD (z : Int)).toNat

theorem renOf_eq (rn : List (Int × Int)) (hval : ∀ p, p ∈ rn → 0 ≤ p.2) (z : Nat) :
    (rn.lookup (z : Int)).getD (z : Int) = (renOf rn z : Int) := by
  unfold renOf
  cases hl : rn.lookup (z : Int) with
  | none => simp
  | some x =>
    have := hval _ (lookup_some_mem _ _ _ hl)
    simp only [Option.getD_some]
    omega

theorem renOf_lt (rn : List (Int × Int)) (N : Nat) (hval : ∀ p, p ∈ rn → p.2 < (N : Int))
    (z : Nat) (hz : z < N) : renOf rn z < N := by
  unfold renOf
  cases hl : rn.lookup (z : Int) with
  | none => simp; exact hz
  | some x =>
    have := hval _ (lookup_some_mem _ _ _ hl)
    simp only [Option.getD_some]
    omega

/-- a level that is no key is not moved -/
theorem renOf_not_key (rn : List (Int × Int)) (z : Nat) (h : ∀ p, p ∈ rn → p.1 ≠ (z : Int)) :
    renOf rn z = z := by
  unfold renOf
  cases hl : rn.lookup (z : Int) with
  | none => simp
  | some x => exact absurd rfl (h _ (lookup_some_mem _ _ _ hl))

/-- THE ARITHMETIC OF "NEIGHBOURS": a renaming whose pairs are adjacent (`|k - rn k| = 1`) and
injective, none of whose targets lies in `S`, is strictly increasing on `S`. -/
theorem renOf_mono (rn : List (Int × Int)) (S : Nat → Prop)
    (hval : ∀ p, p ∈ rn → 0 ≤ p.2)
    (hadj : ∀ p, p ∈ rn → (p.1 - p.2).natAbs = 1)
    (hinj : ∀ p p', p ∈ rn → p' ∈ rn → p.2 = p'.2 → p.1 = p'.1)
    (hdis : ∀ p, p ∈ rn → ∀ j, S j → p.2 ≠ (j : Int)) :
    ∀ j j', S j → S j' → j < j' → renOf rn j < renOf rn j' := by
  intro j j' hj hj' hlt
  have e1 := renOf_eq rn hval j
  have e2 := renOf_eq rn hval j'
  cases h1 : rn.lookup (j : Int) with
  | none =>
    rw [h1] at e1
    simp only [Option.getD_none] at e1
    cases h2 : rn.lookup (j' : Int) with
    | none =>
      rw [h2] at e2
      simp only [Option.getD_none] at e2
      omega
    | some x' =>
      rw [h2] at e2
      simp only [Option.getD_some] at e2
      have m2 := lookup_some_mem _ _ _ h2
      have a2 := hadj _ m2
      have d2 := hdis _ m2 j hj
      simp only at a2 d2
      omega
  | some x =>
    rw [h1] at e1
    simp only [Option.getD_some] at e1
    have m1 := lookup_some_mem _ _ _ h1
    have a1 := hadj _ m1
    have d1 := hdis _ m1 j' hj'
    simp only at a1 d1
    cases h2 : rn.lookup (j' : Int) with
    | none =>
      rw [h2] at e2
      simp only [Option.getD_none] at e2
      omega
    | some x' =>
      rw [h2] at e2
      simp only [Option.getD_some] at e2
      have m2 := lookup_some_mem _ _ _ h2
      have a2 := hadj _ m2
      have d2 := hdis _ m2 j hj
      have i12 := hinj _ _ m1 m2
      simp only at a2 d2 i12
      have : x ≠ x' := by
        intro h
        have := i12 h
        omega
      omega

end DD
