/-
  DDProofs.MddBddSide — the BDD half of the main loop of `bdd_to_mdd`: with the bits in zones
  (`ZoneOK`, what `reorder(bdd, order)` establishes) every iteration's BDD side delivers
  `BddSideOK` for the semantics "value of the BDD reference on the bits encoded by the integer
  assignment".  Uses the specification of `cofactor` (C04) and "a node depends on its own
  level" (canonicity).
-/
import DDProofs.MddConv
import DDProofs.SubstWrappers
import DDProofs.SatPick
import DDProofs.VarsProofs
open Std

namespace DD

/-! ### the encoded bit assignment -/

/-- the bit assignment (by NAME) that encodes an integer assignment: bit `k` of the value of the
integer variable that lists the bit at position `k` (first listed bit least significant) -/
def bitsOfInts (dvars : List MVar) (α : MAsg) : String → Bool := fun bit =>
  match lastLookup bit (b2mBitToVar dvars) with
  | none => false
  | some d => (α d.level >>> d.bits.idxOf bit) % 2 == 1

/-- MDD level of the integer variable that owns BDD level `ℓ` (`len(dvars)` below all bits) -/
def zoneLevel (dvars : List MVar) (t : Tbl) (ℓ : Nat) : Nat :=
  match t.l2v[ℓ]? with
  | none => dvars.length
  | some bit =>
    match lastLookup bit (b2mBitToVar dvars) with
    | some d => d.level
    | none => dvars.length

/-- the bits are in zones: what `bdd_to_mdd` has established when the main loop starts -/
structure ZoneOK (dvars : List MVar) (t : Tbl) : Prop where
  order : OrderOK t
  /-- every BDD level carries a bit of some integer variable -/
  owner : ∀ ℓ, ℓ < t.nvars → ∃ bit d, t.l2v[ℓ]? = some bit ∧
    lastLookup bit (b2mBitToVar dvars) = some d ∧ d ∈ dvars ∧ bit ∈ d.bits
  /-- the zones follow the order of the integer variables -/
  mono : ∀ ℓ1 ℓ2, ℓ1 ≤ ℓ2 → ℓ2 < t.nvars → zoneLevel dvars t ℓ1 ≤ zoneLevel dvars t ℓ2
  decl : ∀ d ∈ dvars, ∀ b ∈ d.bits, t.vars.contains b = true
  /-- every listed bit belongs to exactly the variable that lists it -/
  uniq : ∀ d ∈ dvars, ∀ b ∈ d.bits, lastLookup b (b2mBitToVar dvars) = some d
  nodup : ∀ d ∈ dvars, d.bits.Nodup
  lvl : ∀ d ∈ dvars, d.level < dvars.length
  inj : ∀ d ∈ dvars, ∀ d' ∈ dvars, d.level = d'.level → d = d'

theorem ZoneOK.congr {dvars : List MVar} {t t' : Tbl} (h : ZoneOK dvars t)
    (hv : t'.vars = t.vars) (hl : t'.l2v = t.l2v) : ZoneOK dvars t' := by
  have hn : t'.nvars = t.nvars := by unfold Tbl.nvars; rw [hv]
  have hz : ∀ ℓ, zoneLevel dvars t' ℓ = zoneLevel dvars t ℓ := by
    intro ℓ; unfold zoneLevel; rw [hl]
  refine ⟨⟨?_, ?_, ?_⟩, ?_, ?_, ?_, h.uniq, h.nodup, h.lvl, h.inj⟩
  · intro v i; rw [hv, hl]; exact h.order.inv v i
  · intro v i; rw [hv, hn]; exact h.order.lt v i
  · intro i; rw [hn, hl]; exact h.order.total i
  · intro ℓ; rw [hn, hl]; exact h.owner ℓ
  · intro a b; rw [hn, hz, hz]; exact h.mono a b
  · intro d hd b hb; rw [hv]; exact h.decl d hd b hb

/-- the values `_enumerate_integer(bits)` gives to the bits for the integer `i` -/
def enumBits (bits : List String) (i : Nat) : List (String × Bool) :=
  ((List.range bits.length).zip bits).map fun p => (p.2, (i >>> p.1) % 2 == 1)

theorem enumInteger_eq (bits : List String) (i : Nat) :
    enumInteger bits i = (enumBits bits i).map fun p => (Key.name p.1, p.2) := by
  unfold enumInteger enumBits
  rw [List.map_map]
  rfl

theorem mem_enumBits {bits : List String} {i : Nat} {p : String × Bool} (h : p ∈ enumBits bits i) :
    ∃ k, k < bits.length ∧ bits[k]? = some p.1 ∧ p.2 = ((i >>> k) % 2 == 1) := by
  unfold enumBits at h
  rw [List.mem_map] at h
  obtain ⟨q, hq, rfl⟩ := h
  obtain ⟨j, hj, hqj⟩ := List.getElem_of_mem hq
  have hj' : j < bits.length := by
    rw [List.length_zip, List.length_range] at hj; omega
  have : q = (j, bits[j]) := by
    rw [← hqj]; simp [List.getElem_zip]
  subst this
  exact ⟨j, hj', by simp [List.getElem?_eq_getElem hj'], rfl⟩

theorem enumBits_names (bits : List String) (i : Nat) : (enumBits bits i).map (·.1) = bits := by
  unfold enumBits
  rw [List.map_map]
  apply List.ext_getElem
  · simp
  · intro k h1 h2
    simp [List.getElem_zip]

/-- under an integer assignment whose variable `d` has the value `i`, the encoded bits of `d`
are the bits `_enumerate_integer` lists for `i` -/
theorem bitsOfInts_enum {dvars : List MVar} {t : Tbl} (hz : ZoneOK dvars t) (d : MVar) (hd : d ∈ dvars)
    (α : MAsg) (i : Nat) (hα : α d.level = i) :
    ∀ p ∈ enumBits d.bits i, bitsOfInts dvars α p.1 = p.2 := by
  intro p hp
  obtain ⟨k, hk, hbk, hv⟩ := mem_enumBits hp
  have hmem : p.1 ∈ d.bits := List.mem_of_getElem? hbk
  unfold bitsOfInts
  rw [hz.uniq d hd p.1 hmem]
  simp only
  have hidx : d.bits.idxOf p.1 = k := by
    have hnd := hz.nodup d hd
    have h1 : d.bits[k] = p.1 := by
      have := List.getElem?_eq_getElem hk
      rw [hbk] at this
      exact (Option.some.inj this).symm
    rw [← h1]
    exact List.Nodup.idxOf_getElem hnd k hk
  rw [hidx, hα, hv]

/-! ### overriding an assignment that already has the values -/

theorem lookup_map_lvl {t : Tbl} (ho : OrderOK t) (d : List (String × Bool))
    (hdecl : ∀ p, p ∈ d → t.vars.contains p.1 = true) (σ : String → Bool)
    (hσ : ∀ p ∈ d, σ p.1 = p.2) (i : Nat) (b : Bool)
    (h : (d.map fun p => (lvlOf t p.1, p.2)).reverse.lookup i = some b) : t.lift σ i = b := by
  have hm := lookup_some_mem i b _ h
  rw [List.mem_reverse, List.mem_map] at hm
  obtain ⟨p, hp, hpe⟩ := hm
  simp only [Prod.mk.injEq] at hpe
  obtain ⟨h1, h2⟩ := hpe
  obtain ⟨l, hl⟩ := (vars_contains_iff t p.1).mp (hdecl p hp)
  have hli : l = i := by rw [← h1, lvlOf_eq hl]
  subst hli
  have hn : t.l2v[l]? = some p.1 := (ho.inv p.1 l).mp hl
  unfold Tbl.lift Tbl.nameOf
  rw [hn]
  simp only [Option.getD_some]
  rw [hσ p hp, h2]

theorem ovr_lift_eq {t : Tbl} (ho : OrderOK t) (d : List (String × Bool))
    (hdecl : ∀ p, p ∈ d → t.vars.contains p.1 = true) (σ : String → Bool)
    (hσ : ∀ p ∈ d, σ p.1 = p.2) :
    ovr ((d.map fun p => (lvlOf t p.1, p.2)).reverse) (t.lift σ) = t.lift σ := by
  funext i
  unfold ovr
  cases h : (d.map fun p => (lvlOf t p.1, p.2)).reverse.lookup i with
  | none => rfl
  | some b => exact (lookup_map_lvl ho d hdecl σ hσ i b h).symm

/-- overriding forgets what the assignment said at an overridden level -/
theorem ovr_upd_key (vals : List (Nat × Bool)) (a : Asg) (i : Nat) (b : Bool)
    (h : (vals.lookup i).isSome = true) : ovr vals (upd a i b) = ovr vals a := by
  funext j
  unfold ovr
  cases hj : vals.lookup j with
  | some c => rfl
  | none =>
    have : j ≠ i := by intro e; subst e; rw [hj] at h; cases h
    simp [upd, this]

theorem ovr_upd_other (vals : List (Nat × Bool)) (a : Asg) (i : Nat) (b : Bool)
    (h : vals.lookup i = none) : ovr vals (upd a i b) = upd (ovr vals a) i b := by
  funext j
  unfold ovr upd
  by_cases hji : j = i
  · subst hji; simp [h]
  · simp [hji]

/-- a reference that is the cofactor of `u` on the levels `vals` lives strictly below every
overridden level that is not above `u`: it does not depend on the overridden levels nor on the
levels above `u`, and a node depends on its own level -/
theorem cofactor_level {t t' : Tbl} (hw : WF t) (hw' : WFU t') (u r : Int) (hu : t.Mem u)
    (hr : t'.Mem r) (vals : List (Nat × Bool))
    (hden : ∀ a, den t' r a = den t u (ovr vals a)) (n : Nd) (h1 : r.natAbs ≠ 1)
    (hn : t'.node? r.natAbs = some n) :
    t.levelOf u ≤ n.lvl ∧ vals.lookup n.lvl = none := by
  have hdep := node_depends_on_own_level hw' h1 hn
  obtain ⟨a, ha⟩ := hdep
  constructor
  · apply Classical.byContradiction
    intro hlt
    have hlt' : n.lvl < t.levelOf u := by omega
    apply ha
    rw [hden, hden]
    cases hk : vals.lookup n.lvl with
    | some c =>
      rw [ovr_upd_key vals a n.lvl true (by rw [hk]; rfl), ovr_upd_key vals a n.lvl false (by rw [hk]; rfl)]
    | none =>
      rw [ovr_upd_other vals a n.lvl true hk, ovr_upd_other vals a n.lvl false hk,
        den_indep' t hw u hu n.lvl true _ hlt', den_indep' t hw u hu n.lvl false _ hlt']
  · cases hk : vals.lookup n.lvl with
    | none => rfl
    | some c =>
      exfalso
      apply ha
      rw [hden, hden, ovr_upd_key vals a n.lvl true (by rw [hk]; rfl),
        ovr_upd_key vals a n.lvl false (by rw [hk]; rfl)]

/-! ### the intended semantics of BDD references -/

/-- value of the BDD reference `s` on the bits encoded by the integer assignment `α`
(complement by the sign, so that it is defined for every integer) -/
def semB (dvars : List MVar) (t : Tbl) (s : Int) (α : MAsg) : Bool :=
  (decide (s < 0)) ^^ den t ((s.natAbs : Nat) : Int) (t.lift (bitsOfInts dvars α))

theorem semB_neg (dvars : List MVar) (t : Tbl) (x : Int) (α : MAsg) (hx : x ≠ 0) :
    semB dvars t (-x) α = !semB dvars t x α := by
  unfold semB
  rw [Int.natAbs_neg]
  by_cases h : x < 0
  · have h2 : ¬ (-x < 0) := by omega
    have h3 : ¬ (0 < x) := by omega
    simp [h, h3]
  · have h2 : -x < 0 := by omega
    have h3 : 0 < x := by omega
    simp [h, h3]

theorem semB_eq (dvars : List MVar) {t : Tbl} (hw : WF t) {s : Int} (hm : t.Mem s) (α : MAsg) :
    semB dvars t s α = denN t s (bitsOfInts dvars α) := by
  unfold semB denN
  by_cases h : s < 0
  · have hs : s = -((s.natAbs : Nat) : Int) := by omega
    have hm' : t.Mem ((s.natAbs : Nat) : Int) := by
      have := mem_neg hm
      rwa [hs, Int.neg_neg] at this
    conv => rhs; rw [hs]
    rw [den_neg t hw _ _ hm']
    simp [h]
  · have hs : ((s.natAbs : Nat) : Int) = s := by omega
    rw [hs]; simp [h]

theorem semB_nat (dvars : List MVar) (t : Tbl) (u : Nat) (α : MAsg) :
    semB dvars t (u : Int) α = den t (u : Int) (t.lift (bitsOfInts dvars α)) := by
  unfold semB
  have : ¬ ((u : Int) < 0) := by omega
  simp [this]

theorem lift_congr {t t' : Tbl} (hl : t'.l2v = t.l2v) (σ : String → Bool) : t'.lift σ = t.lift σ := by
  funext i; unfold Tbl.lift Tbl.nameOf; rw [hl]

theorem lookup_isSome_of_mem_keys {l : List (Nat × Bool)} {k : Nat} (h : k ∈ l.map (·.1)) :
    (l.lookup k).isSome = true := by
  induction l with
  | nil => simp at h
  | cons p rest ih =>
    rw [List.lookup_cons]
    by_cases hk : k = p.1
    · simp [hk]
    · have hk' : (k == p.1) = false := by simpa using hk
      rw [hk']
      simp only [List.map_cons, List.mem_cons] at h
      rcases h with h | h
      · exact absurd h hk
      · exact ih h

/-! ### the loop over the values of one integer variable -/

/-- the levels and values that the `i`-th cofactor call overrides -/
def cofVals (t : Tbl) (bits : List String) (i : Nat) : List (Nat × Bool) :=
  ((enumBits bits i).map fun p => (lvlOf t p.1, p.2)).reverse

theorem cofVals_congr {t t' : Tbl} (hv : t'.vars = t.vars) (bits : List String) (i : Nat) :
    cofVals t' bits i = cofVals t bits i := by
  unfold cofVals lvlOf; rw [hv]

theorem cofVals_key {t : Tbl} {bits : List String} (i : Nat) {b : String} (hb : b ∈ bits) :
    ((cofVals t bits i).lookup (lvlOf t b)).isSome = true := by
  apply lookup_isSome_of_mem_keys
  unfold cofVals
  rw [List.map_reverse, List.mem_reverse, List.map_map]
  have : (enumBits bits i).map ((fun p : Nat × Bool => p.1) ∘ fun p => (lvlOf t p.1, p.2)) =
      ((enumBits bits i).map (·.1)).map (lvlOf t) := by
    rw [List.map_map]; rfl
  rw [this, enumBits_names]
  exact List.mem_map.mpr ⟨b, hb, rfl⟩

/-- `cofactor` with declared names as keys (C04), in the form used here -/
theorem C04_cofactor_names_aux (m : Mgr) (hI : Inv m) (hoff : m.lastLen = none) (u : Int)
    (hu : m.tbl.Mem u) (d : List (String × Bool))
    (hdecl : ∀ p, p ∈ d → m.tbl.vars.contains p.1 = true) :
    ∃ r m', cofactor u (d.map fun p => (Key.name p.1, p.2)) m = (.ok r, m') ∧ Inv m' ∧
      Ext m.tbl m'.tbl ∧ m'.tbl.Mem r ∧ Frame m m' ∧
      ∀ a, den m'.tbl r a = den m.tbl u (ovr ((d.map fun p => (lvlOf m.tbl p.1, p.2)).reverse) a) := by
  have hkeys : (d.map fun p => (Key.name p.1, p.2)).map (·.1) = (d.map (·.1)).map Key.name := by
    simp [List.map_map, Function.comp_def]
  have hlv : mapToLevelE m.tbl ((d.map fun p => (Key.name p.1, p.2)).map (·.1)) =
      .ok ((d.map (·.1)).map (lvlOf m.tbl)) := by
    rw [hkeys]
    apply mapToLevelE_names
    intro s hs
    obtain ⟨p, hp, rfl⟩ := List.mem_map.mp hs
    exact hdecl p hp
  obtain ⟨r, m', h1, h2, h3, h4, h5, h6⟩ := cofactor_spec m hI hoff u hu _ _ hlv
  refine ⟨r, m', h1, h2, h3, h4, h5, ?_⟩
  intro a
  rw [h6 a]
  have : ((d.map (·.1)).map (lvlOf m.tbl)).zip ((d.map fun p => (Key.name p.1, p.2)).map (·.2)) =
      d.map fun p => (lvlOf m.tbl p.1, p.2) := by
    simp only [List.map_map, Function.comp_def]
    rw [List.zip_map']
  rw [this]

theorem b2mSuccs_spec (dvars : List MVar) (var : MVar) (hd : var ∈ dvars) (u : Nat)
    (umap : List (Nat × Int)) :
    ∀ (is : List Nat) (mb : Mgr), Inv mb → mb.lastLen = none → ZoneOK dvars mb.tbl →
      mb.tbl.Mem (u : Int) →
      ∀ succs mb', b2mSuccs u var.bits umap is mb = (.ok succs, mb') →
        Inv mb' ∧ Ext mb.tbl mb'.tbl ∧ Frame mb mb' ∧ succs.length = is.length ∧
        ∀ (j i : Nat) (k : Int), is[j]? = some i → succs[j]? = some k →
          ∃ (x r : Int), umap.lookup x.natAbs = some r ∧ k = (if x > 0 then r else -r) ∧
            mb'.tbl.Mem x ∧
            ∀ a, den mb'.tbl x a = den mb.tbl (u : Int) (ovr (cofVals mb.tbl var.bits i) a) := by
  intro is
  induction is with
  | nil =>
    intro mb hI hoff hz hu succs mb' hr
    simp only [b2mSuccs, Prod.mk.injEq, Except.ok.injEq] at hr
    obtain ⟨h1, h2⟩ := hr
    subst h1 h2
    refine ⟨hI, Ext.refl _, Frame.refl _, rfl, ?_⟩
    intro j i k hj
    simp at hj
  | cons i0 rest ih =>
    intro mb hI hoff hz hu succs mb' hr
    unfold b2mSuccs at hr
    have hdecl : ∀ p, p ∈ enumBits var.bits i0 → mb.tbl.vars.contains p.1 = true := by
      intro p hp
      obtain ⟨k, _, hbk, _⟩ := mem_enumBits hp
      exact hz.decl var hd p.1 (List.mem_of_getElem? hbk)
    obtain ⟨x0, m1, hc, hI1, hE1, hM1, hF1, hden1⟩ :=
      C04_cofactor_names_aux mb hI hoff (u : Int) hu (enumBits var.bits i0) hdecl
    rw [enumInteger_eq, hc] at hr
    simp only at hr
    split at hr
    · simp at hr
    · next r0 hl0 =>
      split at hr
      · simp at hr
      · next rs m2 hrest =>
        simp only [Prod.mk.injEq, Except.ok.injEq] at hr
        obtain ⟨hs, hm⟩ := hr
        subst hs hm
        have hW := hI.wf.toWF
        have hW1 := hI1.wf.toWF
        have hz1 : ZoneOK dvars m1.tbl := hz.congr hF1.vars hF1.l2v
        obtain ⟨hI2, hE2, hF2, hlen, hall⟩ := ih m1 hI1 (by rw [hF1.lastLen]; exact hoff) hz1
          (hE1.mem hu) rs m2 hrest
        refine ⟨hI2, hE1.trans hE2, hF1.trans hF2, by simp [hlen], ?_⟩
        intro j i k hj hk
        cases j with
        | zero =>
          simp only [List.getElem?_cons_zero, Option.some.injEq] at hj hk
          subst hj hk
          refine ⟨x0, r0, hl0, rfl, hE2.mem hM1, ?_⟩
          intro a
          rw [den_ext hE2 hW1 x0 a hM1]
          exact hden1 a
        | succ j =>
          simp only [List.getElem?_cons_succ] at hj hk
          obtain ⟨x, r, h1, h2, h3, h4⟩ := hall j i k hj hk
          refine ⟨x, r, h1, h2, h3, ?_⟩
          intro a
          rw [h4 a, den_ext hE1 hW (u : Int) _ hu, cofVals_congr hF1.vars]

/-! ### one iteration, BDD side -/

/-- the BDD manager during the main loop: invariant, reordering not enabled, bits in zones, and
an extension of the table the loop started with -/
structure BSide (dvars : List MVar) (m2 mb : Mgr) : Prop where
  inv : Inv mb
  off : mb.lastLen = none
  zone : ZoneOK dvars mb.tbl
  ext : Ext m2.tbl mb.tbl
  frame : Frame m2 mb

/-- MDD level of the zone of BDD node `x` -/
def Lb (dvars : List MVar) (mb : Mgr) (x : Nat) : Nat :=
  zoneLevel dvars mb.tbl (mb.tbl.levelOf (x : Int))

def Qb (mb : Mgr) (x : Nat) : Prop := mb.tbl.Mem (x : Int)

theorem zoneLevel_congr (dvars : List MVar) {t t' : Tbl} (hl : t'.l2v = t.l2v) (ℓ : Nat) :
    zoneLevel dvars t' ℓ = zoneLevel dvars t ℓ := by
  unfold zoneLevel; rw [hl]

theorem semMono_of_ext (dvars : List MVar) {mb mb1 : Mgr} (hI : Inv mb) (hE : Ext mb.tbl mb1.tbl)
    (hF : Frame mb mb1) :
    SemMono Qb (fun m => semB dvars m.tbl) (Lb dvars) mb mb1 := by
  intro x hx
  have hx' : mb.tbl.Mem (x : Int) := hx
  refine ⟨hE.mem hx', ?_, ?_⟩
  · unfold Lb
    rw [hE.levelOf hx', zoneLevel_congr dvars hF.l2v]
  · intro α
    show semB dvars mb1.tbl (x : Int) α = semB dvars mb.tbl (x : Int) α
    rw [semB_nat, semB_nat, lift_congr hF.l2v, den_ext hE hI.wf.toWF (x : Int) _ hx']

theorem b2mIntSucc_bddSide (dvars : List MVar) (m2 : Mgr) (u : Nat) (umap : List (Nat × Int))
    (mb : Mgr) (var : MVar) (succs : List Int) (mb1 : Mgr) (hP : BSide dvars m2 mb)
    (hK : (m2.tbl.node? u).isSome = true)
    (hr : b2mIntSucc (b2mBitToVar dvars) u umap mb = (.ok (var, succs), mb1)) :
    BSide dvars m2 mb1 ∧ SemMono Qb (fun m => semB dvars m.tbl) (Lb dvars) mb mb1 ∧ Qb mb1 u ∧
    BddSideOK (semB dvars mb1.tbl) (Lb dvars mb1) u umap var succs := by
  have hI := hP.inv
  have hW := hI.wf.toWF
  have hz := hP.zone
  obtain ⟨n, hn2⟩ := Option.isSome_iff_exists.mp hK
  have hn : mb.tbl.node? u = some n := hP.ext.nodes u n hn2
  have hu2 : 2 ≤ u := hW.ge_two _ _ hn
  have hu1 : ((u : Nat) : Int).natAbs ≠ 1 := by simp; omega
  have hnode : mb.tbl.node? ((u : Nat) : Int).natAbs = some n := by simpa using hn
  have huM : mb.tbl.Mem (u : Int) := Or.inr (by rw [hnode]; rfl)
  have hlvl : n.lvl < mb.tbl.nvars := hW.lvl_lt _ _ hn
  unfold b2mIntSucc at hr
  have hn' : mb.tbl.succ[u]? = some n := hn
  rw [hn'] at hr
  simp only at hr
  obtain ⟨bit, d, hbit, hdl, hdm, hbd⟩ := hz.owner n.lvl hlvl
  rw [hbit] at hr
  simp only at hr
  rw [hdl] at hr
  simp only at hr
  split at hr
  · simp at hr
  · next succs' mb1' hs =>
    simp only [Prod.mk.injEq, Except.ok.injEq] at hr
    obtain ⟨⟨hv, hs'⟩, hm⟩ := hr
    subst hv hs' hm
    obtain ⟨hI1, hE1, hF1, hlen, hall⟩ := b2mSuccs_spec dvars d hdm u umap _ mb hI hP.off hz huM _ _ hs
    have hW1 := hI1.wf.toWF
    have hz1 : ZoneOK dvars mb1'.tbl := hz.congr hF1.vars hF1.l2v
    have huM1 : mb1'.tbl.Mem (u : Int) := hE1.mem huM
    have hnv1 : mb1'.tbl.nvars = mb.tbl.nvars := by unfold Tbl.nvars; rw [hF1.vars]
    refine ⟨⟨hI1, by rw [hF1.lastLen]; exact hP.off, hz1, hP.ext.trans hE1, hP.frame.trans hF1⟩,
      semMono_of_ext dvars hI hE1 hF1, huM1, ?_, ?_⟩
    · -- the zone of `u` is the zone of the variable found
      show zoneLevel dvars mb1'.tbl (mb1'.tbl.levelOf (u : Int)) = d.level
      rw [hE1.levelOf huM, levelOf_node mb.tbl (u : Int) n hu1 hnode, zoneLevel_congr dvars hF1.l2v]
      unfold zoneLevel
      rw [hbit]
      simp only
      rw [hdl]
    · intro i k hk
      -- the i-th cofactor
      have hilen : i < succs'.length := by
        cases hlt : decide (i < succs'.length) with
        | true => simpa using hlt
        | false =>
          have : succs'.length ≤ i := by simpa using hlt
          rw [List.getElem?_eq_none this] at hk; cases hk
      -- lengths: the result has one entry per value (from the spec, entry by entry)
      by_cases hir : i < 2 ^ d.bits.length
      · obtain ⟨x, r, h1, h2, h3, h4⟩ := hall i i k (by rw [List.getElem?_range hir]) hk
        have hx0 : x ≠ 0 := mem_ne_zero hW1 h3
        refine ⟨x, r, h1, h2, hx0, ?_, ?_⟩
        · -- the cofactor lies in a later zone
          show d.level < zoneLevel dvars mb1'.tbl (mb1'.tbl.levelOf (((x.natAbs : Nat)) : Int))
          have habs : mb1'.tbl.levelOf (((x.natAbs : Nat)) : Int) = mb1'.tbl.levelOf x := by
            unfold Tbl.levelOf; simp
          rw [habs]
          by_cases hx1 : x.natAbs = 1
          · rw [levelOf_term mb1'.tbl x hx1]
            unfold zoneLevel
            rw [hz1.order.l2v_none]
            exact hz.lvl d hdm
          · rcases h3 with h3 | h3
            · exact absurd h3 hx1
            · obtain ⟨nx, hnx⟩ := Option.isSome_iff_exists.mp h3
              rw [levelOf_node mb1'.tbl x nx hx1 hnx]
              obtain ⟨hge, hnone⟩ := cofactor_level hW hI1.wf (u : Int) x huM (Or.inr (by rw [hnx]; rfl))
                (cofVals mb.tbl d.bits i) h4 nx hx1 hnx
              rw [levelOf_node mb.tbl (u : Int) n hu1 hnode] at hge
              have hnxlt : nx.lvl < mb.tbl.nvars := by rw [← hnv1]; exact hW1.lvl_lt _ _ hnx
              have hmono := hz.mono n.lvl nx.lvl hge hnxlt
              have hzu : zoneLevel dvars mb.tbl n.lvl = d.level := by
                unfold zoneLevel; rw [hbit]; simp only; rw [hdl]
              rw [zoneLevel_congr dvars hF1.l2v]
              rw [hzu] at hmono
              -- not in the zone of `d`
              have hne : zoneLevel dvars mb.tbl nx.lvl ≠ d.level := by
                intro heq
                obtain ⟨bit', d', hbit', hdl', hdm', hbd'⟩ := hz.owner nx.lvl hnxlt
                have hzl : zoneLevel dvars mb.tbl nx.lvl = d'.level := by
                  unfold zoneLevel; rw [hbit']; simp only; rw [hdl']
                have hdd : d' = d := hz.inj d' hdm' d hdm (by rw [← hzl, heq])
                subst hdd
                have hlv : lvlOf mb.tbl bit' = nx.lvl :=
                  lvlOf_eq ((hz.order.inv bit' nx.lvl).mpr hbit')
                have := cofVals_key (t := mb.tbl) i hbd'
                rw [hlv, hnone] at this
                cases this
              omega
        · -- it agrees with `u` where the integer variable has the value `i`
          intro α hα
          rw [semB_eq dvars hW1 h3, semB_eq dvars hW1 huM1]
          unfold denN
          rw [h4, lift_congr hF1.l2v, den_ext hE1 hW (u : Int) _ huM]
          have hov : ovr (cofVals mb.tbl d.bits i) (mb.tbl.lift (bitsOfInts dvars α)) =
              mb.tbl.lift (bitsOfInts dvars α) := by
            unfold cofVals
            apply ovr_lift_eq hz.order
            · intro p hp
              obtain ⟨k', _, hbk, _⟩ := mem_enumBits hp
              exact hz.decl d hdm p.1 (List.mem_of_getElem? hbk)
            · exact bitsOfInts_enum hz d hdm α i hα
          rw [hov]
      · -- an index beyond the values cannot occur: the spec lists one entry per value
        exfalso
        rw [List.length_range] at hlen
        omega

/-! ### the main loop, both halves -/

/-- the main loop of `bdd_to_mdd` on a BDD manager whose bits are in zones: the MDD manager
satisfies its invariant, and every `umap` entry `u ↦ r` is right — for every reference `s` to
node `u` (complemented or not) the MDD reference `flip(r, s)` takes, on every valid integer
assignment, the value of `s` on the encoded bits.  The BDD manager only grows (`Ext`), keeps its
invariant and its variable order. -/
theorem b2mLoop_bdd_sound (dvars : List MVar) (m2 : Mgr) (hI : Inv m2) (hoff : m2.lastLen = none)
    (hz : ZoneOK dvars m2.tbl) (rm ord : List Nat)
    (hord : ∀ u, u ∈ ord → rm.contains u = false → (m2.tbl.node? u).isSome = true)
    (out : B2MOut) (mb' : Mgr)
    (hr : b2mLoop rm (b2mBitToVar dvars) ord (MddMgr.new (some dvars)) [(1, 1)] m2 = (.ok out, mb')) :
    BSide dvars m2 mb' ∧ MInv out.mdd ∧ out.mdd.tbl.vars = dvars ∧
    ∀ (u : Nat) (r : Int), out.umap.lookup u = some r →
      mb'.tbl.Mem (u : Int) ∧ out.mdd.tbl.Mem r ∧
      ∀ (s : Int), s.natAbs = u → ∀ α, MValid out.mdd.tbl α →
        denM out.mdd.tbl (flip r s) α = denN mb'.tbl s (bitsOfInts dvars α) := by
  have hP0 : BSide dvars m2 m2 := ⟨hI, hoff, hz, Ext.refl _, Frame.refl _⟩
  have hU0 : UmapOK (semB dvars m2.tbl) (Lb dvars m2) (MddMgr.new (some dvars)) [(1, 1)] := by
    constructor
    intro x r hl
    by_cases hx : x = 1
    · subst hx
      simp [List.lookup_cons] at hl
      subst hl
      refine ⟨Or.inl rfl, ?_, ?_⟩
      · rw [MTbl.levelOf_term _ 1 rfl]
        show zoneLevel dvars m2.tbl (m2.tbl.levelOf ((1 : Nat) : Int)) ≤ dvars.length
        rw [levelOf_term m2.tbl _ (by simp)]
        unfold zoneLevel
        rw [hz.order.l2v_none]
        exact Nat.le_refl _
      · intro α _
        rw [denM_one]
        show true = semB dvars m2.tbl ((1 : Nat) : Int) α
        rw [semB_nat]
        exact (den_one _ _).symm
    · have : (x == 1) = false := by simpa using hx
      simp [List.lookup_cons, this] at hl
  have hQ0 : UmapKeys (Qb m2) [(1, 1)] := by
    intro x r hl
    by_cases hx : x = 1
    · subst hx; exact Or.inl rfl
    · have : (x == 1) = false := by simpa using hx
      simp [List.lookup_cons, this] at hl
  obtain ⟨hP', hinv, hext, hU, hQ⟩ := b2mLoop_sound_gen Qb (fun m => semB dvars m.tbl) (Lb dvars)
    (fun mb x α hx => semB_neg dvars mb.tbl x α hx) rm (b2mBitToVar dvars) (BSide dvars m2)
    (fun u => (m2.tbl.node? u).isSome = true)
    (fun u umap mb var succs mb1 hP hK hs => b2mIntSucc_bddSide dvars m2 u umap mb var succs mb1 hP hK hs)
    ord _ _ m2 out mb' hord hP0 (MInv.init dvars) hU0 hQ0 hr
  refine ⟨hP', hinv, hext.vars.symm, ?_⟩
  intro u r hl
  obtain ⟨hm, _, hden⟩ := hU.ok u r hl
  have hmu : mb'.tbl.Mem (u : Int) := hQ u r hl
  have hW' := hP'.inv.wf.toWF
  refine ⟨hmu, hm, ?_⟩
  intro s hs α hα
  have hms : mb'.tbl.Mem s := by
    unfold Tbl.Mem at hmu ⊢
    simpa [hs] using hmu
  rw [← semB_eq dvars hW' hms]
  unfold flip
  split
  · next hneg =>
    have hsu : s = -((u : Nat) : Int) := by omega
    have hu0 : ((u : Nat) : Int) ≠ 0 := by omega
    rw [denM_neg _ hinv.wf.toMWF r α hm, hden α hα, hsu, semB_neg dvars mb'.tbl _ α hu0]
  · next hneg =>
    have hsu : s = ((u : Nat) : Int) := by omega
    rw [hden α hα, hsu]

end DD
