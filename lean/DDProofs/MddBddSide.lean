/-
  DDProofs.MddBddSide — the BDD half of the main loop of `bdd_to_mdd`: with the bits in zones
  (`ZoneOK`, what `reorder(bdd, order)` establishes) every iteration's BDD side delivers
  `BddSideOK` for the semantics "value of the BDD reference on the bits encoded by the integer
  assignment".  Uses the specification of `cofactor` (C04) and "a node depends on its own
  level" (canonicity).
-/
import DDProofs.MddConv
import DDProofs.SubstWrappers
import DDProofs.SatPick
import DDProofs.VarsProofs
import DDProofs.MddCofPath
open Std

namespace DD

/-! ### the encoded bit assignment -/

/-- the bit assignment (by NAME) that encodes an integer assignment: bit `k` of the value of the
integer variable that lists the bit at position `k` (first listed bit least significant) -/
def bitsOfInts (dvars : List MVar) (α : MAsg) : String → Bool := fun bit =>
  match lastLookup bit (b2mBitToVar dvars) with
  | none => false
  | some d => (α d.level >>> d.bits.idxOf bit) % 2 == 1

/-- MDD level of the integer variable that owns BDD level `ℓ` (`len(dvars)` below all bits) -/
def zoneLevel (dvars : List MVar) (t : Tbl) (ℓ : Nat) : Nat :=
  match t.l2v[ℓ]? with
  | none => dvars.length
  | some bit =>
    match lastLookup bit (b2mBitToVar dvars) with
    | some d => d.level
    | none => dvars.length

/-- the bits are in zones: what `bdd_to_mdd` has established when the main loop starts -/
structure ZoneOK (dvars : List MVar) (t : Tbl) : Prop where
  order : OrderOK t
  /-- every BDD level carries a bit of some integer variable -/
  owner : ∀ ℓ, ℓ < t.nvars → ∃ bit d, t.l2v[ℓ]? = some bit ∧
    lastLookup bit (b2mBitToVar dvars) = some d ∧ d ∈ dvars ∧ bit ∈ d.bits
  /-- the zones follow the order of the integer variables -/
  mono : ∀ ℓ1 ℓ2, ℓ1 ≤ ℓ2 → ℓ2 < t.nvars → zoneLevel dvars t ℓ1 ≤ zoneLevel dvars t ℓ2
  decl : ∀ d ∈ dvars, ∀ b ∈ d.bits, t.vars.contains b = true
  /-- every listed bit belongs to exactly the variable that lists it -/
  uniq : ∀ d ∈ dvars, ∀ b ∈ d.bits, lastLookup b (b2mBitToVar dvars) = some d
  nodup : ∀ d ∈ dvars, d.bits.Nodup
  lvl : ∀ d ∈ dvars, d.level < dvars.length
  inj : ∀ d ∈ dvars, ∀ d' ∈ dvars, d.level = d'.level → d = d'

theorem ZoneOK.congr {dvars : List MVar} {t t' : Tbl} (h : ZoneOK dvars t)
    (hv : t'.vars = t.vars) (hl : t'.l2v = t.l2v) : ZoneOK dvars t' := by
  have hn : t'.nvars = t.nvars := by unfold Tbl.nvars; rw [hv]
  have hz : ∀ ℓ, zoneLevel dvars t' ℓ = zoneLevel dvars t ℓ := by
    intro ℓ; unfold zoneLevel; rw [hl]
  refine ⟨⟨?_, ?_, ?_⟩, ?_, ?_, ?_, h.uniq, h.nodup, h.lvl, h.inj⟩
  · intro v i; rw [hv, hl]; exact h.order.inv v i
  · intro v i; rw [hv, hn]; exact h.order.lt v i
  · intro i; rw [hn, hl]; exact h.order.total i
  · intro ℓ; rw [hn, hl]; exact h.owner ℓ
  · intro a b; rw [hn, hz, hz]; exact h.mono a b
  · intro d hd b hb; rw [hv]; exact h.decl d hd b hb

/-- the values `_enumerate_integer(bits)` gives to the bits for the integer `i` -/
def enumBits (bits : List String) (i : Nat) : List (String × Bool) :=
  ((List.range bits.length).zip bits).map fun p => (p.2, (i >>> p.1) % 2 == 1)

theorem enumInteger_eq (bits : List String) (i : Nat) :
    enumInteger bits i = (enumBits bits i).map fun p => (Key.name p.1, p.2) := by
  unfold enumInteger enumBits
  rw [List.map_map]
  rfl

theorem mem_enumBits {bits : List String} {i : Nat} {p : String × Bool} (h : p ∈ enumBits bits i) :
    ∃ k, k < bits.length ∧ bits[k]? = some p.1 ∧ p.2 = ((i >>> k) % 2 == 1) := by
  unfold enumBits at h
  rw [List.mem_map] at h
  obtain ⟨q, hq, rfl⟩ := h
  obtain ⟨j, hj, hqj⟩ := List.getElem_of_mem hq
  have hj' : j < bits.length := by
    rw [List.length_zip, List.length_range] at hj; omega
  have : q = (j, bits[j]) := by
    rw [← hqj]; simp [List.getElem_zip]
  subst this
  exact ⟨j, hj', by simp [List.getElem?_eq_getElem hj'], rfl⟩

theorem enumBits_names (bits : List String) (i : Nat) : (enumBits bits i).map (·.1) = bits := by
  unfold enumBits
  rw [List.map_map]
  apply List.ext_getElem
  · simp
  · intro k h1 h2
    simp [List.getElem_zip]

/-- under an integer assignment whose variable `d` has the value `i`, the encoded bits of `d`
are the bits `_enumerate_integer` lists for `i` -/
theorem bitsOfInts_enum {dvars : List MVar} {t : Tbl} (hz : ZoneOK dvars t) (d : MVar) (hd : d ∈ dvars)
    (α : MAsg) (i : Nat) (hα : α d.level = i) :
    ∀ p ∈ enumBits d.bits i, bitsOfInts dvars α p.1 = p.2 := by
  intro p hp
  obtain ⟨k, hk, hbk, hv⟩ := mem_enumBits hp
  have hmem : p.1 ∈ d.bits := List.mem_of_getElem? hbk
  unfold bitsOfInts
  rw [hz.uniq d hd p.1 hmem]
  simp only
  have hidx : d.bits.idxOf p.1 = k := by
    have hnd := hz.nodup d hd
    have h1 : d.bits[k] = p.1 := by
      have := List.getElem?_eq_getElem hk
      rw [hbk] at this
      exact (Option.some.inj this).symm
    rw [← h1]
    exact List.Nodup.idxOf_getElem hnd k hk
  rw [hidx, hα, hv]

/-! ### overriding an assignment that already has the values -/

theorem lookup_map_lvl {t : Tbl} (ho : OrderOK t) (d : List (String × Bool))
    (hdecl : ∀ p, p ∈ d → t.vars.contains p.1 = true) (σ : String → Bool)
    (hσ : ∀ p ∈ d, σ p.1 = p.2) (i : Nat) (b : Bool)
    (h : (d.map fun p => (lvlOf t p.1, p.2)).reverse.lookup i = some b) : t.lift σ i = b := by
  have hm := lookup_some_mem i b _ h
  rw [List.mem_reverse, List.mem_map] at hm
  obtain ⟨p, hp, hpe⟩ := hm
  simp only [Prod.mk.injEq] at hpe
  obtain ⟨h1, h2⟩ := hpe
  obtain ⟨l, hl⟩ := (vars_contains_iff t p.1).mp (hdecl p hp)
  have hli : l = i := by rw [← h1, lvlOf_eq hl]
  subst hli
  have hn : t.l2v[l]? = some p.1 := (ho.inv p.1 l).mp hl
  unfold Tbl.lift Tbl.nameOf
  rw [hn]
  simp only [Option.getD_some]
  rw [hσ p hp, h2]

theorem ovr_lift_eq {t : Tbl} (ho : OrderOK t) (d : List (String × Bool))
    (hdecl : ∀ p, p ∈ d → t.vars.contains p.1 = true) (σ : String → Bool)
    (hσ : ∀ p ∈ d, σ p.1 = p.2) :
    ovr ((d.map fun p => (lvlOf t p.1, p.2)).reverse) (t.lift σ) = t.lift σ := by
  funext i
  unfold ovr
  cases h : (d.map fun p => (lvlOf t p.1, p.2)).reverse.lookup i with
  | none => rfl
  | some b => exact (lookup_map_lvl ho d hdecl σ hσ i b h).symm

/-- overriding forgets what the assignment said at an overridden level -/
theorem ovr_upd_key (vals : List (Nat × Bool)) (a : Asg) (i : Nat) (b : Bool)
    (h : (vals.lookup i).isSome = true) : ovr vals (upd a i b) = ovr vals a := by
  funext j
  unfold ovr
  cases hj : vals.lookup j with
  | some c => rfl
  | none =>
    have : j ≠ i := by intro e; subst e; rw [hj] at h; cases h
    simp [upd, this]

theorem ovr_upd_other (vals : List (Nat × Bool)) (a : Asg) (i : Nat) (b : Bool)
    (h : vals.lookup i = none) : ovr vals (upd a i b) = upd (ovr vals a) i b := by
  funext j
  unfold ovr upd
  by_cases hji : j = i
  · subst hji; simp [h]
  · simp [hji]

/-- a reference that is the cofactor of `u` on the levels `vals` lives strictly below every
overridden level that is not above `u`: it does not depend on the overridden levels nor on the
levels above `u`, and a node depends on its own level -/
theorem cofactor_level {t t' : Tbl} (hw : WF t) (hw' : WFU t') (u r : Int) (hu : t.Mem u)
    (hr : t'.Mem r) (vals : List (Nat × Bool))
    (hden : ∀ a, den t' r a = den t u (ovr vals a)) (n : Nd) (h1 : r.natAbs ≠ 1)
    (hn : t'.node? r.natAbs = some n) :
    t.levelOf u ≤ n.lvl ∧ vals.lookup n.lvl = none := by
  have hdep := node_depends_on_own_level hw' h1 hn
  obtain ⟨a, ha⟩ := hdep
  constructor
  · apply Classical.byContradiction
    intro hlt
    have hlt' : n.lvl < t.levelOf u := by omega
    apply ha
    rw [hden, hden]
    cases hk : vals.lookup n.lvl with
    | some c =>
      rw [ovr_upd_key vals a n.lvl true (by rw [hk]; rfl), ovr_upd_key vals a n.lvl false (by rw [hk]; rfl)]
    | none =>
      rw [ovr_upd_other vals a n.lvl true hk, ovr_upd_other vals a n.lvl false hk,
        den_indep' t hw u hu n.lvl true _ hlt', den_indep' t hw u hu n.lvl false _ hlt']
  · cases hk : vals.lookup n.lvl with
    | none => rfl
    | some c =>
      exfalso
      apply ha
      rw [hden, hden, ovr_upd_key vals a n.lvl true (by rw [hk]; rfl),
        ovr_upd_key vals a n.lvl false (by rw [hk]; rfl)]

/-! ### the intended semantics of BDD references -/

/-- value of the BDD reference `s` on the bits encoded by the integer assignment `α`
(complement by the sign, so that it is defined for every integer) -/
def semB (dvars : List MVar) (t : Tbl) (s : Int) (α : MAsg) : Bool :=
  (decide (s < 0)) ^^ den t ((s.natAbs : Nat) : Int) (t.lift (bitsOfInts dvars α))

theorem semB_neg (dvars : List MVar) (t : Tbl) (x : Int) (α : MAsg) (hx : x ≠ 0) :
    semB dvars t (-x) α = !semB dvars t x α := by
  unfold semB
  rw [Int.natAbs_neg]
  by_cases h : x < 0
  · have h2 : ¬ (-x < 0) := by omega
    have h3 : ¬ (0 < x) := by omega
    simp [h, h3]
  · have h2 : -x < 0 := by omega
    have h3 : 0 < x := by omega
    simp [h, h3]

theorem semB_eq (dvars : List MVar) {t : Tbl} (hw : WF t) {s : Int} (hm : t.Mem s) (α : MAsg) :
    semB dvars t s α = denN t s (bitsOfInts dvars α) := by
  unfold semB denN
  by_cases h : s < 0
  · have hs : s = -((s.natAbs : Nat) : Int) := by omega
    have hm' : t.Mem ((s.natAbs : Nat) : Int) := by
      have := mem_neg hm
      rwa [hs, Int.neg_neg] at this
    conv => rhs; rw [hs]
    rw [den_neg t hw _ _ hm']
    simp [h]
  · have hs : ((s.natAbs : Nat) : Int) = s := by omega
    rw [hs]; simp [h]

theorem semB_nat (dvars : List MVar) (t : Tbl) (u : Nat) (α : MAsg) :
    semB dvars t (u : Int) α = den t (u : Int) (t.lift (bitsOfInts dvars α)) := by
  unfold semB
  have : ¬ ((u : Int) < 0) := by omega
  simp [this]

theorem lift_congr {t t' : Tbl} (hl : t'.l2v = t.l2v) (σ : String → Bool) : t'.lift σ = t.lift σ := by
  funext i; unfold Tbl.lift Tbl.nameOf; rw [hl]

theorem lookup_isSome_of_mem_keys {l : List (Nat × Bool)} {k : Nat} (h : k ∈ l.map (·.1)) :
    (l.lookup k).isSome = true := by
  induction l with
  | nil => simp at h
  | cons p rest ih =>
    rw [List.lookup_cons]
    by_cases hk : k = p.1
    · simp [hk]
    · have hk' : (k == p.1) = false := by simpa using hk
      rw [hk']
      simp only [List.map_cons, List.mem_cons] at h
      rcases h with h | h
      · exact absurd h hk
      · exact ih h

/-! ### the loop over the values of one integer variable -/

/-- the levels and values that the `i`-th cofactor call overrides -/
def cofVals (t : Tbl) (bits : List String) (i : Nat) : List (Nat × Bool) :=
  ((enumBits bits i).map fun p => (lvlOf t p.1, p.2)).reverse

theorem cofVals_congr {t t' : Tbl} (hv : t'.vars = t.vars) (bits : List String) (i : Nat) :
    cofVals t' bits i = cofVals t bits i := by
  unfold cofVals lvlOf; rw [hv]

theorem cofVals_key {t : Tbl} {bits : List String} (i : Nat) {b : String} (hb : b ∈ bits) :
    ((cofVals t bits i).lookup (lvlOf t b)).isSome = true := by
  apply lookup_isSome_of_mem_keys
  unfold cofVals
  rw [List.map_reverse, List.mem_reverse, List.map_map]
  have : (enumBits bits i).map ((fun p : Nat × Bool => p.1) ∘ fun p => (lvlOf t p.1, p.2)) =
      ((enumBits bits i).map (·.1)).map (lvlOf t) := by
    rw [List.map_map]; rfl
  rw [this, enumBits_names]
  exact List.mem_map.mpr ⟨b, hb, rfl⟩

/-- inside the zone of `d`, from the level of `u` down to any bit of `d`, every level carries a bit
of `d` (the zone is contiguous): the covering condition of `cofactor_path` -/
theorem zone_cover {dvars : List MVar} {t : Tbl} (hz : ZoneOK dvars t) (d : MVar) (hd : d ∈ dvars)
    (lu : Nat) (hzu : zoneLevel dvars t lu = d.level) (i : Nat) (ℓ : Nat) (hℓ : lu ≤ ℓ)
    (hj : ∃ p ∈ enumBits d.bits i, ℓ ≤ lvlOf t p.1) :
    ((cofVals t d.bits i).lookup ℓ).isSome = true := by
  obtain ⟨p, hp, hle⟩ := hj
  obtain ⟨k, _, hbk, _⟩ := mem_enumBits hp
  have hpb : p.1 ∈ d.bits := List.mem_of_getElem? hbk
  obtain ⟨lp, hlp⟩ := (vars_contains_iff t p.1).mp (hz.decl d hd p.1 hpb)
  have hlpn : lp < t.nvars := hz.order.lt _ _ hlp
  rw [lvlOf_eq hlp] at hle
  have hzp : zoneLevel dvars t lp = d.level := by
    unfold zoneLevel
    rw [(hz.order.inv p.1 lp).mp hlp]
    simp only
    rw [hz.uniq d hd p.1 hpb]
  have h1 := hz.mono lu ℓ hℓ (by omega)
  have h2 := hz.mono ℓ lp hle hlpn
  obtain ⟨bit', d', hbit', hdl', hdm', hbd'⟩ := hz.owner ℓ (by omega)
  have hzl : zoneLevel dvars t ℓ = d'.level := by
    unfold zoneLevel; rw [hbit']; simp only; rw [hdl']
  have hdd : d' = d := hz.inj d' hdm' d hd (by omega)
  subst hdd
  have hlv : lvlOf t bit' = ℓ := lvlOf_eq ((hz.order.inv bit' ℓ).mpr hbit')
  have := cofVals_key (t := t) i hbd'
  rwa [hlv] at this

/-- the loop over the values of one integer variable: every `cofactor` call returns normally and
leaves the manager as it was (for any setting of the reordering switches) -/
theorem b2mSuccs_spec (dvars : List MVar) (var : MVar) (hd : var ∈ dvars) (u : Nat)
    (umap : List (Nat × Int)) (mb : Mgr) (hW : WF mb.tbl) (hz : ZoneOK dvars mb.tbl)
    (hu : mb.tbl.Mem (u : Int))
    (hzu : zoneLevel dvars mb.tbl (mb.tbl.levelOf (u : Int)) = var.level) :
    ∀ (is : List Nat) (succs : List Int) (mb' : Mgr),
      b2mSuccs u var.bits umap is mb = (.ok succs, mb') →
        mb' = mb ∧ succs.length = is.length ∧
        ∀ (j i : Nat) (k : Int), is[j]? = some i → succs[j]? = some k →
          ∃ (x r : Int), umap.lookup x.natAbs = some r ∧ k = (if x > 0 then r else -r) ∧
            PathEntry (cofVals mb.tbl var.bits i) mb.tbl (u : Int) x := by
  intro is
  induction is with
  | nil =>
    intro succs mb' hr
    simp only [b2mSuccs, Prod.mk.injEq, Except.ok.injEq] at hr
    obtain ⟨h1, h2⟩ := hr
    subst h1 h2
    refine ⟨rfl, rfl, ?_⟩
    intro j i k hj
    simp at hj
  | cons i0 rest ih =>
    intro succs mb' hr
    unfold b2mSuccs at hr
    have hdecl : ∀ p, p ∈ enumBits var.bits i0 → mb.tbl.vars.contains p.1 = true := by
      intro p hp
      obtain ⟨k, _, hbk, _⟩ := mem_enumBits hp
      exact hz.decl var hd p.1 (List.mem_of_getElem? hbk)
    obtain ⟨x0, hc, hpe⟩ := cofactor_path mb hW (u : Int) hu (enumBits var.bits i0) hdecl
      (fun ℓ hℓ hj => zone_cover hz var hd _ hzu i0 ℓ hℓ hj)
    rw [enumInteger_eq, hc] at hr
    simp only at hr
    split at hr
    · simp at hr
    · next r0 hl0 =>
      split at hr
      · simp at hr
      · next rs m2 hrest =>
        simp only [Prod.mk.injEq, Except.ok.injEq] at hr
        obtain ⟨hs, hm⟩ := hr
        subst hs hm
        obtain ⟨hm2, hlen, hall⟩ := ih rs m2 hrest
        refine ⟨hm2, by simp [hlen], ?_⟩
        intro j i k hj hk
        cases j with
        | zero =>
          simp only [List.getElem?_cons_zero, Option.some.injEq] at hj hk
          subst hj hk
          exact ⟨x0, r0, hl0, rfl, hpe⟩
        | succ j =>
          simp only [List.getElem?_cons_succ] at hj hk
          exact hall j i k hj hk

/-! ### one iteration, BDD side -/

/-- the BDD manager during the main loop: it is the manager the loop started with (nothing is
created, no counter moves): invariant, bits in zones -/
structure BSide (dvars : List MVar) (m2 mb : Mgr) : Prop where
  inv : Inv mb
  zone : ZoneOK dvars mb.tbl
  eq : mb = m2

/-- MDD level of the zone of BDD node `x` -/
def Lb (dvars : List MVar) (mb : Mgr) (x : Nat) : Nat :=
  zoneLevel dvars mb.tbl (mb.tbl.levelOf (x : Int))

def Qb (mb : Mgr) (x : Nat) : Prop := mb.tbl.Mem (x : Int)

theorem zoneLevel_congr (dvars : List MVar) {t t' : Tbl} (hl : t'.l2v = t.l2v) (ℓ : Nat) :
    zoneLevel dvars t' ℓ = zoneLevel dvars t ℓ := by
  unfold zoneLevel; rw [hl]

theorem semMono_refl (dvars : List MVar) (mb : Mgr) :
    SemMono Qb (fun m => semB dvars m.tbl) (Lb dvars) mb mb :=
  fun _ hx => ⟨hx, rfl, fun _ => rfl⟩

/-- what the BDD side of one iteration delivers, with the facts the totality proof needs:
the variable found, one successor per value, and for each the cofactor it is the image of -/
theorem b2mIntSucc_facts (dvars : List MVar) (u : Nat) (umap : List (Nat × Int))
    (mb : Mgr) (var : MVar) (succs : List Int) (mb1 : Mgr) (hI : Inv mb) (hz : ZoneOK dvars mb.tbl)
    (n : Nd) (hn : mb.tbl.node? u = some n)
    (hr : b2mIntSucc (b2mBitToVar dvars) u umap mb = (.ok (var, succs), mb1)) :
    mb1 = mb ∧ var ∈ dvars ∧ zoneLevel dvars mb.tbl n.lvl = var.level ∧
    succs.length = 2 ^ var.bits.length ∧
    ∀ (i : Nat) (k : Int), succs[i]? = some k →
      ∃ (x r : Int), umap.lookup x.natAbs = some r ∧ k = (if x > 0 then r else -r) ∧
        PathEntry (cofVals mb.tbl var.bits i) mb.tbl (u : Int) x := by
  have hW := hI.wf.toWF
  have hu2 : 2 ≤ u := hW.ge_two _ _ hn
  have hu1 : ((u : Nat) : Int).natAbs ≠ 1 := by simp; omega
  have hnode : mb.tbl.node? ((u : Nat) : Int).natAbs = some n := by simpa using hn
  have huM : mb.tbl.Mem (u : Int) := Or.inr (by rw [hnode]; rfl)
  have hlvl : n.lvl < mb.tbl.nvars := hW.lvl_lt _ _ hn
  unfold b2mIntSucc at hr
  have hn' : mb.tbl.succ[u]? = some n := hn
  rw [hn'] at hr
  simp only at hr
  obtain ⟨bit, d, hbit, hdl, hdm, hbd⟩ := hz.owner n.lvl hlvl
  rw [hbit] at hr
  simp only at hr
  rw [hdl] at hr
  simp only at hr
  have hzu0 : zoneLevel dvars mb.tbl n.lvl = d.level := by
    unfold zoneLevel; rw [hbit]; simp only; rw [hdl]
  split at hr
  · simp at hr
  · next succs' mb1' hs =>
    simp only [Prod.mk.injEq, Except.ok.injEq] at hr
    obtain ⟨⟨hv, hs'⟩, hm⟩ := hr
    subst hv hs' hm
    have hzu : zoneLevel dvars mb.tbl (mb.tbl.levelOf (u : Int)) = d.level := by
      rw [levelOf_node mb.tbl (u : Int) n hu1 hnode]; exact hzu0
    obtain ⟨hmb, hlen, hall⟩ := b2mSuccs_spec dvars d hdm u umap mb hW hz huM hzu _ _ _ hs
    rw [List.length_range] at hlen
    refine ⟨hmb, hdm, hzu0, hlen, ?_⟩
    intro i k hk
    have hilen : i < succs'.length := by
      cases hlt : decide (i < succs'.length) with
      | true => simpa using hlt
      | false =>
        have : succs'.length ≤ i := by simpa using hlt
        rw [List.getElem?_eq_none this] at hk; cases hk
    exact hall i i k (by rw [List.getElem?_range (by omega)]) hk

/-- a cofactor over all bits of the zone of `d` lies in a later zone, and agrees with `u` where the
integer variable has the value `i` -/
theorem pathEntry_side {dvars : List MVar} {mb : Mgr} (hI : Inv mb) (hz : ZoneOK dvars mb.tbl)
    (d : MVar) (hdm : d ∈ dvars) (u : Nat) (n : Nd) (hn : mb.tbl.node? u = some n)
    (hzu0 : zoneLevel dvars mb.tbl n.lvl = d.level) (i : Nat) (x : Int)
    (hpe : PathEntry (cofVals mb.tbl d.bits i) mb.tbl (u : Int) x) :
    x ≠ 0 ∧ d.level < Lb dvars mb x.natAbs ∧
    ∀ α, α d.level = i → semB dvars mb.tbl x α = semB dvars mb.tbl (u : Int) α := by
  have hW := hI.wf.toWF
  have hu2 : 2 ≤ u := hW.ge_two _ _ hn
  have hu1 : ((u : Nat) : Int).natAbs ≠ 1 := by simp; omega
  have hnode : mb.tbl.node? ((u : Nat) : Int).natAbs = some n := by simpa using hn
  have huM : mb.tbl.Mem (u : Int) := Or.inr (by rw [hnode]; rfl)
  have h3 := hpe.ent.mr
  have h4 := hpe.ent.den
  have hx0 : x ≠ 0 := mem_ne_zero hW h3
  refine ⟨hx0, ?_, ?_⟩
  · show d.level < zoneLevel dvars mb.tbl (mb.tbl.levelOf (((x.natAbs : Nat)) : Int))
    have habs : mb.tbl.levelOf (((x.natAbs : Nat)) : Int) = mb.tbl.levelOf x := by
      unfold Tbl.levelOf; simp
    rw [habs]
    by_cases hx1 : x.natAbs = 1
    · rw [levelOf_term mb.tbl x hx1]
      unfold zoneLevel
      rw [hz.order.l2v_none]
      exact hz.lvl d hdm
    · rcases h3 with h3 | h3
      · exact absurd h3 hx1
      · obtain ⟨nx, hnx⟩ := Option.isSome_iff_exists.mp h3
        rw [levelOf_node mb.tbl x nx hx1 hnx]
        obtain ⟨hge, hnone⟩ := cofactor_level hW hI.wf (u : Int) x huM (Or.inr (by rw [hnx]; rfl))
          (cofVals mb.tbl d.bits i) h4 nx hx1 hnx
        rw [levelOf_node mb.tbl (u : Int) n hu1 hnode] at hge
        have hnxlt : nx.lvl < mb.tbl.nvars := hW.lvl_lt _ _ hnx
        have hmono := hz.mono n.lvl nx.lvl hge hnxlt
        rw [hzu0] at hmono
        have hne : zoneLevel dvars mb.tbl nx.lvl ≠ d.level := by
          intro heq
          obtain ⟨bit', d', hbit', hdl', hdm', hbd'⟩ := hz.owner nx.lvl hnxlt
          have hzl : zoneLevel dvars mb.tbl nx.lvl = d'.level := by
            unfold zoneLevel; rw [hbit']; simp only; rw [hdl']
          have hdd : d' = d := hz.inj d' hdm' d hdm (by rw [← hzl, heq])
          subst hdd
          have hlv : lvlOf mb.tbl bit' = nx.lvl :=
            lvlOf_eq ((hz.order.inv bit' nx.lvl).mpr hbit')
          have := cofVals_key (t := mb.tbl) i hbd'
          rw [hlv, hnone] at this
          cases this
        omega
  · intro α hα
    rw [semB_eq dvars hW h3, semB_eq dvars hW huM]
    unfold denN
    rw [h4]
    have hov : ovr (cofVals mb.tbl d.bits i) (mb.tbl.lift (bitsOfInts dvars α)) =
        mb.tbl.lift (bitsOfInts dvars α) := by
      unfold cofVals
      apply ovr_lift_eq hz.order
      · intro p hp
        obtain ⟨k', _, hbk, _⟩ := mem_enumBits hp
        exact hz.decl d hdm p.1 (List.mem_of_getElem? hbk)
      · exact bitsOfInts_enum hz d hdm α i hα
    rw [hov]

theorem b2mIntSucc_bddSide (dvars : List MVar) (m2 : Mgr) (u : Nat) (umap : List (Nat × Int))
    (mb : Mgr) (var : MVar) (succs : List Int) (mb1 : Mgr) (hP : BSide dvars m2 mb)
    (hK : (m2.tbl.node? u).isSome = true)
    (hr : b2mIntSucc (b2mBitToVar dvars) u umap mb = (.ok (var, succs), mb1)) :
    BSide dvars m2 mb1 ∧ SemMono Qb (fun m => semB dvars m.tbl) (Lb dvars) mb mb1 ∧ Qb mb1 u ∧
    BddSideOK (semB dvars mb1.tbl) (Lb dvars mb1) u umap var succs := by
  have hI := hP.inv
  have hW := hI.wf.toWF
  have hz := hP.zone
  obtain ⟨n, hn2⟩ := Option.isSome_iff_exists.mp hK
  have hn : mb.tbl.node? u = some n := by rw [hP.eq]; exact hn2
  have hu2 : 2 ≤ u := hW.ge_two _ _ hn
  have hu1 : ((u : Nat) : Int).natAbs ≠ 1 := by simp; omega
  have hnode : mb.tbl.node? ((u : Nat) : Int).natAbs = some n := by simpa using hn
  have huM : mb.tbl.Mem (u : Int) := Or.inr (by rw [hnode]; rfl)
  obtain ⟨hmb, hdm, hzu0, _, hall⟩ := b2mIntSucc_facts dvars u umap mb var succs mb1 hI hz n hn hr
  subst hmb
  refine ⟨hP, semMono_refl dvars mb1, huM, ?_, ?_⟩
  · show zoneLevel dvars mb1.tbl (mb1.tbl.levelOf (u : Int)) = var.level
    rw [levelOf_node mb1.tbl (u : Int) n hu1 hnode]; exact hzu0
  · intro i k hk
    obtain ⟨x, r, h1, h2, hpe⟩ := hall i k hk
    obtain ⟨hx0, hL, hS⟩ := pathEntry_side hI hz var hdm u n hn hzu0 i x hpe
    exact ⟨x, r, h1, h2, hx0, hL, hS⟩

/-! ### the main loop, both halves -/

/-- the main loop of `bdd_to_mdd` on a BDD manager whose bits are in zones: the MDD manager
satisfies its invariant, and every `umap` entry `u ↦ r` is right — for every reference `s` to
node `u` (complemented or not) the MDD reference `flip(r, s)` takes, on every valid integer
assignment, the value of `s` on the encoded bits.  The BDD manager only grows (`Ext`), keeps its
invariant and its variable order. -/
theorem b2mLoop_bdd_sound (dvars : List MVar) (m2 : Mgr) (hI : Inv m2)
    (hz : ZoneOK dvars m2.tbl) (rm ord : List Nat)
    (hord : ∀ u, u ∈ ord → rm.contains u = false → (m2.tbl.node? u).isSome = true)
    (out : B2MOut) (mb' : Mgr)
    (hr : b2mLoop rm (b2mBitToVar dvars) ord (MddMgr.new (some dvars)) [(1, 1)] m2 = (.ok out, mb')) :
    BSide dvars m2 mb' ∧ MInv out.mdd ∧ out.mdd.tbl.vars = dvars ∧
    MReach dvars out.mdd (fun _ => 0) ∧
    ∀ (u : Nat) (r : Int), out.umap.lookup u = some r →
      mb'.tbl.Mem (u : Int) ∧ out.mdd.tbl.Mem r ∧
      ∀ (s : Int), s.natAbs = u → ∀ α, MValid out.mdd.tbl α →
        denM out.mdd.tbl (flip r s) α = denN mb'.tbl s (bitsOfInts dvars α) := by
  have hP0 : BSide dvars m2 m2 := ⟨hI, hz, rfl⟩
  have hU0 : UmapOK (semB dvars m2.tbl) (Lb dvars m2) (MddMgr.new (some dvars)) [(1, 1)] := by
    constructor
    intro x r hl
    by_cases hx : x = 1
    · subst hx
      simp [List.lookup_cons] at hl
      subst hl
      refine ⟨Or.inl rfl, ?_, ?_⟩
      · rw [MTbl.levelOf_term _ 1 rfl]
        show zoneLevel dvars m2.tbl (m2.tbl.levelOf ((1 : Nat) : Int)) ≤ dvars.length
        rw [levelOf_term m2.tbl _ (by simp)]
        unfold zoneLevel
        rw [hz.order.l2v_none]
        exact Nat.le_refl _
      · intro α _
        rw [denM_one]
        show true = semB dvars m2.tbl ((1 : Nat) : Int) α
        rw [semB_nat]
        exact (den_one _ _).symm
    · have : (x == 1) = false := by simpa using hx
      simp [List.lookup_cons, this] at hl
  have hQ0 : UmapKeys (Qb m2) [(1, 1)] := by
    intro x r hl
    by_cases hx : x = 1
    · subst hx; exact Or.inl rfl
    · have : (x == 1) = false := by simpa using hx
      simp [List.lookup_cons, this] at hl
  obtain ⟨hP', hinv, hext, hU, hQ, hR⟩ := b2mLoop_sound_gen Qb (fun m => semB dvars m.tbl) (Lb dvars)
    (fun mb x α hx => semB_neg dvars mb.tbl x α hx) rm (b2mBitToVar dvars) (BSide dvars m2)
    (fun u => (m2.tbl.node? u).isSome = true)
    (fun u umap mb var succs mb1 hP hK hs => b2mIntSucc_bddSide dvars m2 u umap mb var succs mb1 hP hK hs)
    ord _ _ m2 out mb' hord hP0 (MInv.init dvars) hU0 hQ0 hr
  refine ⟨hP', hinv, hext.vars.symm, hR _ _ MReach.init, ?_⟩
  intro u r hl
  obtain ⟨hm, _, hden⟩ := hU.ok u r hl
  have hmu : mb'.tbl.Mem (u : Int) := hQ u r hl
  have hW' := hP'.inv.wf.toWF
  refine ⟨hmu, hm, ?_⟩
  intro s hs α hα
  have hms : mb'.tbl.Mem s := by
    unfold Tbl.Mem at hmu ⊢
    simpa [hs] using hmu
  rw [← semB_eq dvars hW' hms]
  unfold flip
  split
  · next hneg =>
    have hsu : s = -((u : Nat) : Int) := by omega
    have hu0 : ((u : Nat) : Int) ≠ 0 := by omega
    rw [denM_neg _ hinv.wf.toMWF r α hm, hden α hα, hsu, semB_neg dvars mb'.tbl _ α hu0]
  · next hneg =>
    have hsu : s = ((u : Nat) : Int) := by omega
    rw [hden α hα, hsu]

end DD
