/-
  DDProofs.DynRef — reference counts through `find_or_add` and `_ite` (both outcomes: result
  or attempt aborted by a reordering request): counts stay EXACT w.r.t. the same ledger of
  user-held references and never decrease, no key of `_ref` disappears.  This discharges the
  hypothesis `hmono` of `ite_dyn_spec` (a held node is still held when the aborted attempt
  hands over to sifting).
-/
import DDProofs.DynProofs
import DDProofs.RefCount
open Std

namespace DD

/-! ### counts never decrease -/

/-- no key of `_ref` is removed and no count decreases -/
def RefMono (m m' : Mgr) : Prop :=
  ∀ (k c : Nat), m.ref[k]? = some c → ∃ c' : Nat, m'.ref[k]? = some c' ∧ c ≤ c'

theorem RefMono.refl (m : Mgr) : RefMono m m := fun _ c h => ⟨c, h, Nat.le_refl _⟩

theorem RefMono.trans {a b c : Mgr} (h1 : RefMono a b) (h2 : RefMono b c) : RefMono a c := by
  intro k x hk
  obtain ⟨y, hy, hxy⟩ := h1 k x hk
  obtain ⟨z, hz, hyz⟩ := h2 k y hy
  exact ⟨z, hz, Nat.le_trans hxy hyz⟩

/-- `RefMono` only reads `_ref` -/
theorem RefMono.congr {a a' b b' : Mgr} (h : RefMono a b) (ha : a'.ref = a.ref) (hb : b'.ref = b.ref) :
    RefMono a' b' := by
  intro k c hk
  rw [ha] at hk
  rw [hb]
  exact h k c hk

theorem RefMono.of_eq {m m' : Mgr} (h : m'.ref = m.ref) : RefMono m m' :=
  (RefMono.refl m).congr rfl h

/-- a held node stays held when counts do not decrease -/
theorem Held.mono {m m' : Mgr} (h : RefMono m m') {w : Int} (hw : Held m w) : Held m' w := by
  rcases hw with h1 | ⟨c, hc, hpos⟩
  · exact Or.inl h1
  · obtain ⟨c', hc', hle⟩ := h _ _ hc
    exact Or.inr ⟨c', hc', by omega⟩

/-- the ledger view of "held": the user holds a reference (or it is the terminal) -/
def HeldX (ext : Nat → Nat) (u : Int) : Prop := u.natAbs = 1 ∨ 0 < ext u.natAbs

/-- with exact counts, what the user holds has a positive count -/
theorem HeldX.held {m : Mgr} {ext : Nat → Nat} (hr : RefExact m ext) {u : Int} (h : HeldX ext u) :
    Held m u := by
  rcases h with h1 | h1
  · exact Or.inl h1
  · have hm : m.tbl.Mem u := hr.mem_of_ext_pos h1
    exact Or.inr ⟨_, hr.get hm, by omega⟩

theorem HeldX.mem {m : Mgr} {ext : Nat → Nat} (hr : RefExact m ext) {u : Int} (h : HeldX ext u) :
    m.tbl.Mem u := by
  rcases h with h1 | h1
  · exact Or.inl h1
  · exact hr.mem_of_ext_pos h1

/-! ### exact counts are kept, and then counts are monotone -/

/-- the step keeps the counts exact w.r.t. whatever ledger they were exact for, and then no
count decreased and no key of `_ref` was removed -/
def RefKeep (m m' : Mgr) : Prop :=
  ∀ ext : Nat → Nat, RefExact m ext → RefExact m' ext ∧ RefMono m m'

theorem RefKeep.refl (m : Mgr) : RefKeep m m := fun _ h => ⟨h, RefMono.refl m⟩

theorem RefKeep.trans {a b c : Mgr} (h1 : RefKeep a b) (h2 : RefKeep b c) : RefKeep a c := by
  intro ext hr
  obtain ⟨hb, m1⟩ := h1 ext hr
  obtain ⟨hc, m2⟩ := h2 ext hb
  exact ⟨hc, m1.trans m2⟩

/-- `RefKeep` only reads the node table and `_ref` -/
theorem RefKeep.congr {a a' b b' : Mgr} (h : RefKeep a b) (ha1 : a'.tbl = a.tbl) (ha2 : a'.ref = a.ref)
    (hb1 : b'.tbl = b.tbl) (hb2 : b'.ref = b.ref) : RefKeep a' b' := by
  intro ext hr
  obtain ⟨h1, h2⟩ := h ext (hr.congr ha1.symm ha2.symm)
  exact ⟨h1.congr hb1 hb2, h2.congr ha2 hb2⟩

theorem RefKeep.of_eq {m m' : Mgr} (h1 : m'.tbl = m.tbl) (h2 : m'.ref = m.ref) : RefKeep m m' :=
  (RefKeep.refl m).congr rfl rfl h1 h2

/-- `find_or_add` (without the request): a NEW node gets the fresh key `minFree` (not a key of
`_ref` before: exact counts have no stale keys), every other count grows by the number of edges
of the new node into it -/
theorem findOrAddCore_refMono (m : Mgr) (ext : Nat → Nat) (i : Nat) (v w : Int)
    (hW : WF m.tbl) (hr : RefExact m ext) : RefMono m (findOrAddCore i v w m).2 := by
  rcases findOrAddCore_cases m i v w hr.isSome with h | ⟨-, -, h2, hfree, -⟩
  · rw [h]; exact RefMono.refl _
  · rcases findOrAddCore_ref_effect m ext i v w hW hr with h | ⟨n, -, -, -, -, -, -, -, heff⟩
    · rw [h]; exact RefMono.refl _
    · intro k c hk
      have hne : k ≠ m.minFree := by
        intro he
        rw [he] at hk
        rcases (hr.dom m.minFree).mp (by simp [hk]) with h1 | h1
        · omega
        · simp [hfree] at h1
      exact ⟨_, heff k c hne hk, Nat.le_add_right _ _⟩

theorem findOrAddCore_refKeep (m : Mgr) (i : Nat) (v w : Int) (hW : WF m.tbl) :
    RefKeep m (findOrAddCore i v w m).2 :=
  fun ext hr => ⟨findOrAddCore_refExact m ext i v w hW hr, findOrAddCore_refMono m ext i v w hW hr⟩

/-- `find_or_add` with the reordering request (fired or not) -/
theorem findOrAdd_refKeep (m : Mgr) (i : Int) (v w : Int) (hW : WF m.tbl) :
    RefKeep m (findOrAdd i v w m).2 := by
  intro ext hr
  refine ⟨findOrAdd_refExact m ext i v w hW hr, ?_⟩
  obtain ⟨m1, h1, h2, h | h⟩ := findOrAdd_cases m i v w
  · rw [h]; exact RefMono.of_eq h2
  · rw [h]
    have := findOrAddCore_refMono m1 ext i.toNat v w (by rw [h1]; exact hW) (hr.congr h1 h2)
    exact this.congr h2.symm rfl

/-! ### `_ite` -/

/-- `_ite`, whether it returns or is aborted by a reordering request: counts stay exact for the
same ledger (the new nodes are not held by the user), no count decreases, no key disappears -/
theorem iteF_refKeep : ∀ (f : Nat) (m : Mgr) (g u v : Int), Inv m →
    m.tbl.Mem g → m.tbl.Mem u → m.tbl.Mem v →
    m.nvars + 1 ≤ f + min (m.tbl.levelOf g) (min (m.tbl.levelOf u) (m.tbl.levelOf v)) →
    RefKeep m (iteF f g u v m).2 := by
  intro f
  induction f with
  | zero => intro m g u v _ _ _ _ _; exact RefKeep.refl _
  | succ f ih =>
    intro m g u v hI hg hu hv hf
    have hW := hI.wf.toWF
    unfold iteF
    by_cases hg1 : g = 1
    · subst hg1
      simp only [if_true]
      exact RefKeep.refl _
    · simp only [hg1, if_false]
      by_cases hgm1 : g = -1
      · subst hgm1
        simp only [if_true]
        exact RefKeep.refl _
      · simp only [hgm1, if_false]
        cases hc : m.cache[iteKey g u v]? with
        | some w => exact RefKeep.refl _
        | none =>
          simp only
          rw [Tbl.levelOf?_eq _ _ hg, Tbl.levelOf?_eq _ _ hu, Tbl.levelOf?_eq _ _ hv]
          simp only
          have hgn : g.natAbs ≠ 1 := by
            intro h; rcases abs_one_cases h with h | h
            · exact hg1 h
            · exact hgm1 h
          have hlg : m.tbl.levelOf g < m.tbl.nvars := by
            rcases hg with hg' | hg'
            · exact absurd hg' hgn
            · obtain ⟨n, hn⟩ := Option.isSome_iff_exists.mp hg'
              have : m.tbl.levelOf g = n.lvl := by simp [Tbl.levelOf, hgn, hn]
              rw [this]; exact hW.lvl_lt _ _ hn
          generalize hz : min (m.tbl.levelOf g) (min (m.tbl.levelOf u) (m.tbl.levelOf v)) = z at hf ⊢
          have hzg : z ≤ m.tbl.levelOf g := by omega
          have hzu : z ≤ m.tbl.levelOf u := by omega
          have hzv : z ≤ m.tbl.levelOf v := by omega
          have hzn : z < m.tbl.nvars := by omega
          obtain ⟨g0, g1, hcg, mg0, mg1, lg0, lg1, -⟩ := topCofactor_spec m.tbl hW g hg z hzg hzn
          obtain ⟨u0, u1, hcu, mu0, mu1, lu0, lu1, -⟩ := topCofactor_spec m.tbl hW u hu z hzu hzn
          obtain ⟨v0, v1, hcv, mv0, mv1, lv0, lv1, -⟩ := topCofactor_spec m.tbl hW v hv z hzv hzn
          rw [hcg, hcu, hcv]
          simp only
          have hfu1 : m.nvars + 1 ≤ f + min (m.tbl.levelOf g0) (min (m.tbl.levelOf u0) (m.tbl.levelOf v0)) := by
            have : m.nvars = m.tbl.nvars := rfl
            omega
          have k1 := ih m g0 u0 v0 hI mg0 mu0 mv0 hfu1
          have s1 := iteF_spec f m g0 u0 v0 hI mg0 mu0 mv0 hfu1
          generalize hr1 : iteF f g0 u0 v0 m = res1 at k1 s1 ⊢
          obtain ⟨r1, m1⟩ := res1
          cases r1 with
          | error e => exact k1
          | ok p =>
            simp only [IteOutcome] at s1
            simp only
            have hI1 := s1.inv
            have e1 := s1.ext
            have hfu2 : m1.nvars + 1 ≤ f + min (m1.tbl.levelOf g1) (min (m1.tbl.levelOf u1) (m1.tbl.levelOf v1)) := by
              rw [e1.levelOf mg1, e1.levelOf mu1, e1.levelOf mv1]
              have h1 : m1.nvars = m.tbl.nvars := e1.nvars.symm
              have h2 : m.nvars = m.tbl.nvars := rfl
              omega
            have k2 := ih m1 g1 u1 v1 hI1 (e1.mem mg1) (e1.mem mu1) (e1.mem mv1) hfu2
            have s2 := iteF_spec f m1 g1 u1 v1 hI1 (e1.mem mg1) (e1.mem mu1) (e1.mem mv1) hfu2
            generalize hr2 : iteF f g1 u1 v1 m1 = res2 at k2 s2 ⊢
            obtain ⟨r2, m2⟩ := res2
            cases r2 with
            | error e => exact k1.trans k2
            | ok q =>
              simp only [IteOutcome] at s2
              simp only
              have k3 := findOrAdd_refKeep m2 (z : Int) p q s2.inv.wf.toWF
              generalize hr3 : findOrAdd (z : Int) p q m2 = res3 at k3 ⊢
              obtain ⟨r3, m3⟩ := res3
              cases r3 with
              | error e => exact (k1.trans k2).trans k3
              | ok w => exact ((k1.trans k2).trans k3).trans (RefKeep.of_eq rfl rfl)

/-- counts stay exact through `_ite` (same ledger), whether it returns or is aborted -/
theorem iteF_refExact (f : Nat) (m : Mgr) (ext : Nat → Nat) (g u v : Int) (hI : Inv m)
    (hr : RefExact m ext) (hg : m.tbl.Mem g) (hu : m.tbl.Mem u) (hv : m.tbl.Mem v)
    (hf : m.nvars + 1 ≤ f + min (m.tbl.levelOf g) (min (m.tbl.levelOf u) (m.tbl.levelOf v))) :
    RefExact (iteF f g u v m).2 ext :=
  (iteF_refKeep f m g u v hI hg hu hv hf ext hr).1

/-- `_ite` never decreases a count and never removes a key of `_ref`, for both outcomes -/
theorem iteF_refMono (f : Nat) (m : Mgr) (ext : Nat → Nat) (g u v : Int) (hI : Inv m)
    (hr : RefExact m ext) (hg : m.tbl.Mem g) (hu : m.tbl.Mem u) (hv : m.tbl.Mem v)
    (hf : m.nvars + 1 ≤ f + min (m.tbl.levelOf g) (min (m.tbl.levelOf u) (m.tbl.levelOf v))) :
    RefMono m (iteF f g u v m).2 :=
  (iteF_refKeep f m g u v hI hg hu hv hf ext hr).2

end DD
