/-
  DDProofs.Quantify — specification of `_quantify`: the result is true under an assignment
  exactly when some / every choice of values for the quantified levels makes the operand true.
-/
import DDProofs.Cofactor
open Std

namespace DD

/-- `b` and `a` agree outside the levels of `Q` -/
def AgreeOff (Q : List Nat) (b a : Asg) : Prop := ∀ j, j ∉ Q → b j = a j

theorem AgreeOff.refl (Q : List Nat) (a : Asg) : AgreeOff Q a a := fun _ _ => rfl

/-- semantic quantification of a function over the levels of `Q` -/
def qsem (fa : Bool) (Q : List Nat) (f : Asg → Bool) (a : Asg) : Prop :=
  match fa with
  | true => ∀ b, AgreeOff Q b a → f b = true
  | false => ∃ b, AgreeOff Q b a ∧ f b = true

/-- no quantified level matters for `f`: quantification is the identity -/
theorem qsem_noop (fa : Bool) (Q : List Nat) (f : Asg → Bool) (a : Asg)
    (h : ∀ b, AgreeOff Q b a → f b = f a) : qsem fa Q f a ↔ f a = true := by
  cases fa with
  | true =>
    exact ⟨fun hq => hq a (AgreeOff.refl Q a), fun ha b hb => (h b hb).trans ha⟩
  | false =>
    exact ⟨fun ⟨b, hb, hfb⟩ => (h b hb).symm.trans hfb, fun ha => ⟨a, AgreeOff.refl Q a, ha⟩⟩

theorem agreeOff_upd {Q : List Nat} {b a : Asg} {i : Nat} (hi : i ∈ Q) (x : Bool)
    (h : AgreeOff Q b a) : AgreeOff Q (upd b i x) a := by
  intro j hj
  have : j ≠ i := by intro he; subst he; exact hj hi
  rw [upd_other _ _ _ _ this]
  exact h j hj

/-- Shannon expansion at a quantified level -/
theorem qsem_split_in (fa : Bool) (Q : List Nat) (f f0 f1 : Asg → Bool) (i : Nat) (hi : i ∈ Q)
    (hf : ∀ a, f a = if a i then f1 a else f0 a)
    (h0 : ∀ a x, f0 (upd a i x) = f0 a) (h1 : ∀ a x, f1 (upd a i x) = f1 a) (a : Asg) :
    qsem fa Q f a ↔
      (match fa with
       | true => qsem true Q f0 a ∧ qsem true Q f1 a
       | false => qsem false Q f0 a ∨ qsem false Q f1 a) := by
  cases fa with
  | true =>
    simp only [qsem]
    constructor
    · intro h
      constructor
      · intro b hb
        have := h (upd b i false) (agreeOff_upd hi false hb)
        rw [hf] at this
        simpa [h0] using this
      · intro b hb
        have := h (upd b i true) (agreeOff_upd hi true hb)
        rw [hf] at this
        simpa [h1] using this
    · intro ⟨ha, hb⟩ b hab
      rw [hf]
      split
      · exact hb b hab
      · exact ha b hab
  | false =>
    simp only [qsem]
    constructor
    · intro ⟨b, hb, hfb⟩
      rw [hf] at hfb
      split at hfb
      · exact Or.inr ⟨b, hb, hfb⟩
      · exact Or.inl ⟨b, hb, hfb⟩
    · intro h
      rcases h with ⟨b, hb, hfb⟩ | ⟨b, hb, hfb⟩
      · refine ⟨upd b i false, agreeOff_upd hi false hb, ?_⟩
        rw [hf]; simpa [h0] using hfb
      · refine ⟨upd b i true, agreeOff_upd hi true hb, ?_⟩
        rw [hf]; simpa [h1] using hfb

/-- Shannon expansion at a level that is not quantified -/
theorem qsem_split_out (fa : Bool) (Q : List Nat) (f f0 f1 : Asg → Bool) (i : Nat) (hi : i ∉ Q)
    (hf : ∀ a, f a = if a i then f1 a else f0 a) (a : Asg) :
    qsem fa Q f a ↔ if a i = true then qsem fa Q f1 a else qsem fa Q f0 a := by
  cases fa with
  | true =>
    simp only [qsem]
    by_cases hai : a i = true
    · simp only [hai, if_true]
      constructor
      · intro h b hb
        have := h b hb
        rw [hf, hb i hi, hai] at this
        simpa using this
      · intro h b hb
        rw [hf, hb i hi, hai]
        simpa using h b hb
    · simp only [hai, if_false]
      have hai' : a i = false := by simpa using hai
      constructor
      · intro h b hb
        have := h b hb
        rw [hf, hb i hi, hai'] at this
        simpa using this
      · intro h b hb
        rw [hf, hb i hi, hai']
        simpa using h b hb
  | false =>
    simp only [qsem]
    by_cases hai : a i = true
    · simp only [hai, if_true]
      constructor
      · intro ⟨b, hb, hfb⟩
        rw [hf, hb i hi, hai] at hfb
        exact ⟨b, hb, by simpa using hfb⟩
      · intro ⟨b, hb, hfb⟩
        refine ⟨b, hb, ?_⟩
        rw [hf, hb i hi, hai]
        simpa using hfb
    · simp only [hai, if_false]
      have hai' : a i = false := by simpa using hai
      constructor
      · intro ⟨b, hb, hfb⟩
        rw [hf, hb i hi, hai'] at hfb
        exact ⟨b, hb, by simpa using hfb⟩
      · intro ⟨b, hb, hfb⟩
        refine ⟨b, hb, ?_⟩
        rw [hf, hb i hi, hai']
        simpa using hfb

/-- what `_quantify` returns for `u` (also: what its memo may contain) -/
structure QEntry (fa : Bool) (Q : List Nat) (t : Tbl) (u r : Int) : Prop where
  mu : t.Mem u
  mr : t.Mem r
  lvl : t.levelOf u ≤ t.levelOf r
  den : ∀ a, den t r a = true ↔ qsem fa Q (den t u) a

def QMemo (fa : Bool) (Q : List Nat) (t : Tbl) (c : HashMap Int Int) : Prop :=
  ∀ u r, c[u]? = some r → QEntry fa Q t u r

theorem den_ext_fun {m t : Tbl} (he : Ext m t) (hw : WF m) (u : Int) (hm : m.Mem u) :
    den t u = den m u := funext fun a => den_ext he hw u a hm

theorem QEntry.ext {fa : Bool} {Q : List Nat} {m t : Tbl} (hw : WF m) (he : Ext m t)
    {u r : Int} (h : QEntry fa Q m u r) : QEntry fa Q t u r := by
  refine ⟨he.mem h.mu, he.mem h.mr, ?_, ?_⟩
  · rw [he.levelOf h.mu, he.levelOf h.mr]; exact h.lvl
  · intro a
    rw [den_ext he hw r a h.mr, den_ext_fun he hw u h.mu]; exact h.den a

theorem QMemo.ext {fa : Bool} {Q : List Nat} {m t : Tbl} (hw : WF m) (he : Ext m t)
    {c : HashMap Int Int} (h : QMemo fa Q m c) : QMemo fa Q t c :=
  fun u r hc => (h u r hc).ext hw he

theorem QMemo.empty (fa : Bool) (Q : List Nat) (t : Tbl) : QMemo fa Q t {} := by
  intro u r h
  simp at h

theorem QMemo.insert {fa : Bool} {Q : List Nat} {t : Tbl} {c : HashMap Int Int}
    (h : QMemo fa Q t c) {u r : Int} (he : QEntry fa Q t u r) :
    QMemo fa Q t (c.insert u r) := by
  intro u' r' hc
  rw [HashMap.getElem?_insert] at hc
  split at hc
  · next heq =>
    have : u = u' := by simpa using heq
    subst this
    cases hc
    exact he
  · exact h u' r' hc

/-- no quantified level of the table at or below the level of `u`: `u` is its own
quantification -/
theorem QEntry.self (fa : Bool) (Q : List Nat) (t : Tbl) (hw : WF t) (u : Int) (hu : t.Mem u)
    (h : ∀ j, j ∈ Q → t.levelOf u ≤ j → j < t.nvars → False) : QEntry fa Q t u u := by
  refine ⟨hu, hu, Nat.le_refl _, ?_⟩
  intro a
  refine (qsem_noop fa Q (DD.den t u) a ?_).symm
  intro b hb
  apply den_agree_ge t hw u hu
  intro i hi hlt
  exact hb i (fun hq => h i hq hi hlt)

theorem bool_or_true_iff (x y : Bool) : ((if x then true else y) = true) ↔ (x = true ∨ y = true) := by
  cases x <;> simp

theorem bool_and_true_iff (x y : Bool) : ((if x then y else false) = true) ↔ (x = true ∧ y = true) := by
  cases x <;> simp

/-- `_quantify`: with reordering not enabled the recursion is total, only adds nodes, keeps its
memo (keyed by the signed reference) sound, and returns the quantification of the operand. -/
theorem quantifyF_spec (Q : List Nat) (fa : Bool) :
    ∀ (f : Nat) (m : Mgr) (u : Int) (ordvar : List Nat) (cache : HashMap Int Int),
    Inv m → m.lastLen = none → m.tbl.Mem u → QMemo fa Q m.tbl cache →
    (∀ j, j ∈ Q → m.tbl.levelOf u ≤ j → j ∈ ordvar) →
    m.nvars + 1 ≤ f + m.tbl.levelOf u →
    ∃ r c' m', quantifyF Q fa f u ordvar cache m = (.ok (r, c'), m') ∧ Step m m' ∧
      QMemo fa Q m'.tbl c' ∧ QEntry fa Q m'.tbl u r := by
  intro f
  induction f with
  | zero =>
    intro m u ordvar cache hI _ hu _ _ hf
    have := levelOf_le m.tbl hI.wf.toWF u
    have : m.nvars = m.tbl.nvars := rfl
    omega
  | succ f ih =>
    intro m u ordvar cache hI hoff hu hmemo hord hf
    have hW := hI.wf.toWF
    unfold quantifyF
    by_cases h1 : u.natAbs = 1
    · simp only [h1, if_true]
      refine ⟨u, cache, m, rfl, Step.refl hI, hmemo, QEntry.self fa Q m.tbl hW u hu ?_⟩
      intro j _ hle hlt
      rw [levelOf_term m.tbl u h1] at hle
      omega
    · simp only [h1, if_false]
      cases hc : cache[u]? with
      | some r => exact ⟨r, cache, m, rfl, Step.refl hI, hmemo, hmemo u r hc⟩
      | none =>
        simp only
        obtain ⟨n, hn⟩ := mem_node hu h1
        have hn' : m.tbl.succ[u.natAbs]? = some n := hn
        rw [hn']
        simp only [node_succ_ne_zero hW hn, if_false]
        have hlu := levelOf_node m.tbl u n h1 hn
        have hlo := hW.lo_lt _ _ hn
        have hhi := hW.hi_lt _ _ hn
        have hltn := hW.lvl_lt _ _ hn
        have hnv : m.nvars = m.tbl.nvars := rfl
        have hord' : ∀ j, j ∈ Q → n.lvl ≤ j → j ∈ ordvar.dropWhile (· < n.lvl) := by
          intro j hj hle
          exact mem_dropWhile_of_not _ j ordvar (hord j hj (by omega)) (by simpa using hle)
        generalize ordvar.dropWhile (· < n.lvl) = ov at hord' ⊢
        by_cases hemp : ov.isEmpty = true
        · simp only [hemp, if_true]
          refine ⟨u, cache, m, rfl, Step.refl hI, hmemo, QEntry.self fa Q m.tbl hW u hu ?_⟩
          intro j hj hle _
          have := hord' j hj (by omega)
          rw [List.isEmpty_iff.mp hemp] at this
          cases this
        · simp only [hemp, Bool.false_eq_true, if_false]
          -- the signed successors
          generalize hv : (if u < 0 then -n.lo else n.lo) = v
          generalize hw : (if u < 0 then -n.hi else n.hi) = w
          have hvm : m.tbl.Mem v := by rw [← hv]; exact mem_flip u (hW.lo_mem _ _ hn)
          have hwm : m.tbl.Mem w := by rw [← hw]; exact mem_flip u (hW.hi_mem _ _ hn)
          have hvl : n.lvl < m.tbl.levelOf v := by rw [← hv, levelOf_flip]; exact hlo
          have hwl : n.lvl < m.tbl.levelOf w := by rw [← hw, levelOf_flip]; exact hhi
          obtain ⟨p, c1, m1, he1, hs1, hm1, hp1⟩ := ih m v ov cache
            hI hoff hvm hmemo (fun j hj hle => hord' j hj (by omega)) (by omega)
          rw [he1]
          simp only
          have hW1 := hs1.inv.wf.toWF
          obtain ⟨q, c2, m2, he2, hs2, hm2, hp2⟩ := ih m1 w ov c1
            hs1.inv (hs1.off hoff) (hs1.ext.mem hwm) hm1
            (fun j hj hle => hord' j hj (by rw [hs1.ext.levelOf hwm] at hle; omega))
            (by rw [hs1.nvars, hs1.ext.levelOf hwm]; omega)
          rw [he2]
          simp only
          have hW2 := hs2.inv.wf.toWF
          have hp1' := hp1.ext hW1 hs2.ext
          have hs12 := hs1.trans hs2
          have hoff2 := hs12.off hoff
          have hlp : n.lvl < m2.tbl.levelOf p := by
            have := hp1'.lvl
            rw [hs12.ext.levelOf hvm] at this
            omega
          have hlq : n.lvl < m2.tbl.levelOf q := by
            have := hp2.lvl
            rw [hs12.ext.levelOf hwm] at this
            omega
          -- common conclusion, given the combining step
          have hfin : ∀ r3 m3, Step m2 m3 → m3.tbl.Mem r3 → n.lvl ≤ m3.tbl.levelOf r3 →
              (∀ a, den m3.tbl r3 a = true ↔ qsem fa Q (den m3.tbl u) a) →
              ∃ r c' m', ((Except.ok (r3, c2.insert u r3), m3) : Except Err (Int × HashMap Int Int) × Mgr) =
                  (Except.ok (r, c'), m') ∧ Step m m' ∧
                QMemo fa Q m'.tbl c' ∧ QEntry fa Q m'.tbl u r := by
            intro r3 m3 hs3 hr3 hl3 hd3
            have hs := hs12.trans hs3
            have hent : QEntry fa Q m3.tbl u r3 :=
              ⟨hs.ext.mem hu, hr3, by rw [hs.ext.levelOf hu, hlu]; exact hl3, hd3⟩
            exact ⟨r3, _, m3, rfl, hs, (hm2.ext hW2 hs3.ext).insert hent, hent⟩
          -- Shannon expansion of `u` in a later table
          have hexp : ∀ m3, Step m2 m3 → (∀ a, den m3.tbl u a =
                if a n.lvl then den m3.tbl w a else den m3.tbl v a) ∧
              (∀ a x, den m3.tbl v (upd a n.lvl x) = den m3.tbl v a) ∧
              (∀ a x, den m3.tbl w (upd a n.lvl x) = den m3.tbl w a) := by
            intro m3 hs3
            have hs := hs12.trans hs3
            have hW3 := hs3.inv.wf.toWF
            refine ⟨?_, ?_, ?_⟩
            · intro a
              rw [← hv, ← hw]
              exact den_flip_node m3.tbl hW3 u n a h1 (hs.ext.nodes _ _ hn)
            · intro a x
              exact den_indep' m3.tbl hW3 v (hs.ext.mem hvm) n.lvl x a
                (by rw [hs.ext.levelOf hvm]; exact hvl)
            · intro a x
              exact den_indep' m3.tbl hW3 w (hs.ext.mem hwm) n.lvl x a
                (by rw [hs.ext.levelOf hwm]; exact hwl)
          by_cases hq : n.lvl ∈ Q
          · have hqc : Q.contains n.lvl = true := by simpa using hq
            simp only [hqc, if_true]
            cases fa with
            | true =>
              simp only [if_true]
              obtain ⟨r3, m3, he3, hp3⟩ := ite_spec_off m2 hs2.inv hoff2 p q (-1)
                hp1'.mr hp2.mr (mem_neg_one _)
              rw [he3]
              simp only
              obtain ⟨hx, h0, h1'⟩ := hexp m3 hp3.step
              have hp1'' := hp1'.ext hW2 hp3.ext
              have hp2'' := hp2.ext hW2 hp3.ext
              refine hfin r3 m3 hp3.step hp3.mem ?_ ?_
              · have := hp3.lvl
                rw [levelOf_neg_one] at this
                have := levelOf_le m2.tbl hW2 q
                omega
              · intro a
                rw [qsem_split_in true Q _ _ _ n.lvl hq hx h0 h1' a]
                simp only
                rw [← hp1''.den a, ← hp2''.den a, hp3.den a, den_neg_one,
                  ← den_ext hp3.ext hW2 p a hp1'.mr, ← den_ext hp3.ext hW2 q a hp2.mr]
                exact bool_and_true_iff _ _
            | false =>
              simp only [Bool.false_eq_true, if_false]
              obtain ⟨r3, m3, he3, hp3⟩ := ite_spec_off m2 hs2.inv hoff2 p 1 q
                hp1'.mr (mem_one _) hp2.mr
              rw [he3]
              simp only
              obtain ⟨hx, h0, h1'⟩ := hexp m3 hp3.step
              have hp1'' := hp1'.ext hW2 hp3.ext
              have hp2'' := hp2.ext hW2 hp3.ext
              refine hfin r3 m3 hp3.step hp3.mem ?_ ?_
              · have := hp3.lvl
                rw [levelOf_one] at this
                have := levelOf_le m2.tbl hW2 q
                omega
              · intro a
                rw [qsem_split_in false Q _ _ _ n.lvl hq hx h0 h1' a]
                simp only
                rw [← hp1''.den a, ← hp2''.den a, hp3.den a, den_one,
                  ← den_ext hp3.ext hW2 p a hp1'.mr, ← den_ext hp3.ext hW2 q a hp2.mr]
                exact bool_or_true_iff _ _
          · have hqc : Q.contains n.lvl = false := by simpa using hq
            simp only [hqc, Bool.false_eq_true, if_false]
            obtain ⟨r3, m3, he3, hp3⟩ := findOrAdd_off m2 hs2.inv hoff2 n.lvl p q
              (by rw [hs12.nvars]; exact hltn) hp1'.mr hp2.mr hlp hlq
            rw [he3]
            simp only
            obtain ⟨hx, _, _⟩ := hexp m3 hp3.step
            have hp1'' := hp1'.ext hW2 hp3.ext
            have hp2'' := hp2.ext hW2 hp3.ext
            refine hfin r3 m3 hp3.step hp3.mem hp3.lvl ?_
            intro a
            rw [qsem_split_out fa Q _ _ _ n.lvl hq hx a, ← hp1''.den a, ← hp2''.den a, hp3.den a,
              ← den_ext hp3.ext hW2 p a hp1'.mr, ← den_ext hp3.ext hW2 q a hp2.mr]
            cases a n.lvl <;> simp

end DD
