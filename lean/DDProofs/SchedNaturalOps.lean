/-
  DDProofs.SchedNaturalOps — the bodies of the decorated operations are natural in the recorded
  schedule (`SN`, DDProofs.SchedNatural: they neither read nor write `Mgr.sched`) and never answer
  the model's own `.sched` error.  These are the two facts about a body that the acceptance
  theorem for the decorated call (DDProofs.SchedAcceptDyn) asks for.
-/
import DDProofs.SchedNatural
import DD.Ops
open Std

namespace DD

@[simp] theorem setS_tbl (s : List SchedItem) (m : Mgr) : (setS s m).tbl = m.tbl := rfl
@[simp] theorem setS_cache (s : List SchedItem) (m : Mgr) : (setS s m).cache = m.cache := rfl
@[simp] theorem setS_nvars (s : List SchedItem) (m : Mgr) : (setS s m).nvars = m.nvars := rfl
@[simp] theorem setS_mem (s : List SchedItem) (m : Mgr) (u : Int) : (setS s m).mem u = m.mem u := rfl
@[simp] theorem setS_ctx (s : List SchedItem) (m : Mgr) : (setS s m).ctx = m.ctx := rfl

/-- natural in the schedule when run inside a reordering context (`ctx = true`): what the decorator
asks of the body it wraps — the decorated operations called by a body are then nested, and do not
reorder -/
def SNc {α} (x : M α) : Prop := ∀ s m, m.ctx = true → x (setS s m) = ((x m).1, setS s (x m).2)

theorem SN.toC {α} {x : M α} (h : SN x) : SNc x := fun s m _ => h s m

/-- never the model's schedule error -/
def NS {α} (x : M α) : Prop := ∀ m, (x m).1 ≠ .error .sched

/-- … when run inside a reordering context -/
def NSc {α} (x : M α) : Prop := ∀ m, m.ctx = true → (x m).1 ≠ .error .sched

theorem NS.toC {α} {x : M α} (h : NS x) : NSc x := fun m _ => h m

theorem NS.of_eq {α β} {x : M α} (h : NS x) {m m1 : Mgr} {e : Err} (heq : x m = (.error e, m1)) :
    (Except.error e : Except Err β) ≠ .error .sched := by
  have := h m
  rw [heq] at this
  exact fun h' => this (by cases h'; rfl)

/-- one nested call in a proof of `NS`: `h : (x m).1 ≠ .error .sched` for the call `x m` in the goal -/
macro "ns_next " h:term " , " x:term " => " a:rcasesPat ppSpace m1:ident : tactic =>
  `(tactic| (have hh := $h; generalize $x = r at hh ⊢; obtain ⟨r, $m1:ident⟩ := r; rcases r with e | $a:rcasesPat
             exact fun h' => hh (by cases h'; rfl)
             try simp only))

/-- one nested call in a proof of `SN` -/
macro "sn_next " h:term " , " x:term " => " a:rcasesPat ppSpace m1:ident : tactic =>
  `(tactic| (rw [$h:term]; generalize $x = r; obtain ⟨r, $m1:ident⟩ := r; rcases r with e | $a:rcasesPat
             rfl
             try simp only))

theorem ns_triv {α} {e : Err} {m : Mgr} (h : e ≠ .sched) : ((Except.error e : Except Err α), m).1 ≠ .error .sched :=
  fun h' => h (by cases h'; rfl)

theorem incref_ns (u : Int) : NS (incref u) := by
  intro m
  unfold incref
  split <;> exact fun h => by cases h

theorem requestReordering_ns : NS requestReordering := by
  intro m
  unfold requestReordering
  repeat' split
  all_goals exact fun h => by cases h

theorem foaTail_ns (r0 v' w' : Int) (u : Nat) : NS (foaTail r0 v' w' u) := by
  intro m1
  unfold foaTail
  ns_next incref_ns v' m1, incref v' m1 => _ m2
  ns_next incref_ns w' m2, incref w' m2 => _ m3
  exact fun h => by cases h

theorem findOrAddCore_ns (i : Nat) (v w : Int) : NS (findOrAddCore i v w) := by
  intro m
  have key : ∀ m : Mgr, findOrAddCore i v w m =
      if m.nvars ≤ i then (.error .value, m) else
      if !m.mem v then (.error .value, m) else
      if !m.mem w then (.error .value, m) else
      if (if w < 0 then -v else v) = (if w < 0 then -w else w) then
        (.ok ((if w < 0 then -1 else 1) * (if w < 0 then -v else v)), m) else
      match m.pred[(⟨i, if w < 0 then -v else v, if w < 0 then -w else w⟩ : Nd).key]? with
      | some u => (.ok ((if w < 0 then -1 else 1) * (u : Int)), m)
      | none =>
        if m.minFree ≤ 1 then (.error .assertion, m) else
        if m.tbl.succ.contains m.minFree then (.error .assertion, m) else
        foaTail (if w < 0 then -1 else 1) (if w < 0 then -v else v) (if w < 0 then -w else w) m.minFree
          (foaNew i (if w < 0 then -v else v) (if w < 0 then -w else w) m) := fun m => rfl
  rw [key m]
  generalize (if w < 0 then -v else v) = v'
  generalize (if w < 0 then -w else w) = w'
  generalize (if w < 0 then (-1 : Int) else 1) = r0
  split
  · exact fun h => by cases h
  split
  · exact fun h => by cases h
  split
  · exact fun h => by cases h
  split
  · exact fun h => by cases h
  cases m.pred[(⟨i, v', w'⟩ : Nd).key]? with
  | some u => exact fun h => by cases h
  | none =>
    simp only
    split
    · exact fun h => by cases h
    split
    · exact fun h => by cases h
    exact foaTail_ns _ _ _ _ _

theorem findOrAdd_ns (i : Int) (v w : Int) : NS (findOrAdd i v w) := by
  intro m
  have key : ∀ m : Mgr, findOrAdd i v w m =
      match (if m.ctx then requestReordering m else (.ok (), m)) with
      | (.error e, m1) => (.error e, m1)
      | (.ok _, m1) => if i < 0 then (.error .value, m1) else findOrAddCore i.toNat v w m1 := fun m => rfl
  rw [key m]
  cases m.ctx with
  | false =>
    simp only [Bool.false_eq_true, if_false]
    split
    · exact fun h => by cases h
    · exact findOrAddCore_ns _ v w m
  | true =>
    simp only [if_true]
    ns_next requestReordering_ns m, requestReordering m => _ m1
    split
    · exact fun h => by cases h
    · exact findOrAddCore_ns _ v w m1

/-! ### `_ite`, `var` -/

theorem topCofactor_ne {t : Tbl} {u : Int} {i : Nat} {e : Err} (h : topCofactor t u i = .error e) :
    e ≠ .sched := by
  unfold topCofactor at h
  repeat' split at h
  all_goals first
    | (cases h; done)
    | (cases h; exact fun h => by cases h)


theorem iteF_sn : ∀ (f : Nat) (g u v : Int), SN (iteF f g u v)
  | 0, _, _, _ => fun _ _ => rfl
  | f+1, g, u, v => by
    intro s m
    have ih := iteF_sn f
    unfold iteF
    simp only [setS_tbl, setS_cache]
    split
    · rfl
    split
    · rfl
    split
    · rfl
    split
    · rename_i lg lu lv _ _ _
      split
      · rename_i g0 g1 u0 u1 v0 v1 _ _ _
        sn_next ih g0 u0 v0 s m, iteF f g0 u0 v0 m => p m1
        sn_next ih g1 u1 v1 s m1, iteF f g1 u1 v1 m1 => q m2
        sn_next findOrAdd_sn _ p q s m2, findOrAdd _ p q m2 => w m3
        rfl
      · rfl
      · rfl
      · rfl
    · rfl

theorem iteF_ns : ∀ (f : Nat) (g u v : Int), NS (iteF f g u v)
  | 0, _, _, _ => fun _ h => by cases h
  | f+1, g, u, v => by
    intro m
    have ih := iteF_ns f
    unfold iteF
    split
    · exact fun h => by cases h
    split
    · exact fun h => by cases h
    split
    · exact fun h => by cases h
    split
    · rename_i lg lu lv _ _ _
      dsimp only
      split
      · rename_i g0 g1 u0 u1 v0 v1 _ _ _
        ns_next ih g0 u0 v0 m, iteF f g0 u0 v0 m => p m1
        ns_next ih g1 u1 v1 m1, iteF f g1 u1 v1 m1 => q m2
        ns_next findOrAdd_ns (min lg (min lu lv) : Nat) p q m2, findOrAdd _ p q m2 => w m3
        exact fun h => by cases h
      all_goals exact ns_triv (topCofactor_ne (by assumption))
    · exact fun h => by cases h

theorem iteRaw_sn (g u v : Int) : SN (iteRaw g u v) := by
  unfold iteRaw
  exact SN.get (fun _ _ => rfl) (fun m0 => iteF_sn _ g u v)

theorem iteRaw_ns (g u v : Int) : NS (iteRaw g u v) := fun m => iteF_ns _ g u v m

/-! ### `cofactor` -/

theorem cofactorF_sn (values : List (Nat × Bool)) :
    ∀ (f : Nat) (u : Int) (ordvar : List Nat) (cache : HashMap Int Int), SN (cofactorF values f u ordvar cache)
  | 0, _, _, _ => fun _ _ => rfl
  | f+1, u, ordvar, cache => by
    intro s m
    have ih := cofactorF_sn values f
    unfold cofactorF
    simp only [setS_tbl]
    split
    · rfl
    split
    · rfl
    split
    · rfl
    rename_i n _
    split
    · rfl
    split
    · rfl
    split
    · rename_i val _
      sn_next ih _ _ _ s m, cofactorF values f _ _ _ m => ⟨r, c1⟩ m1
    · sn_next ih n.lo _ _ s m, cofactorF values f n.lo _ _ m => ⟨p, c1⟩ m1
      sn_next ih n.hi _ c1 s m1, cofactorF values f n.hi _ c1 m1 => ⟨q, c2⟩ m2
      sn_next findOrAdd_sn n.lvl p q s m2, findOrAdd n.lvl p q m2 => r m3

theorem cofactorF_ns (values : List (Nat × Bool)) :
    ∀ (f : Nat) (u : Int) (ordvar : List Nat) (cache : HashMap Int Int), NS (cofactorF values f u ordvar cache)
  | 0, _, _, _ => fun _ h => by cases h
  | f+1, u, ordvar, cache => by
    intro m
    have ih := cofactorF_ns values f
    unfold cofactorF
    split
    · exact fun h => by cases h
    split
    · exact fun h => by cases h
    split
    · exact fun h => by cases h
    rename_i n _
    split
    · exact fun h => by cases h
    dsimp only
    split
    · exact fun h => by cases h
    split
    · rename_i val _
      ns_next ih (if val then n.hi else n.lo) (ordvar.dropWhile (· < n.lvl)) cache m, cofactorF values f _ _ _ m => ⟨r, c1⟩ m1
      exact fun h => by cases h
    · ns_next ih n.lo (ordvar.dropWhile (· < n.lvl)) cache m, cofactorF values f n.lo _ _ m => ⟨p, c1⟩ m1
      ns_next ih n.hi (ordvar.dropWhile (· < n.lvl)) c1 m1, cofactorF values f n.hi _ c1 m1 => ⟨q, c2⟩ m2
      ns_next findOrAdd_ns n.lvl p q m2, findOrAdd n.lvl p q m2 => r m3
      exact fun h => by cases h

theorem mapME_ne {α β} {f : α → Except Err β} (hf : ∀ a e, f a = .error e → e ≠ .sched) :
    ∀ (l : List α) (e : Err), mapME f l = .error e → e ≠ .sched
  | [], e, h => by cases h
  | a :: l, e, h => by
    unfold mapME at h
    split at h
    · rename_i e' he
      cases h
      exact hf a _ he
    · split at h
      · rename_i e' he
        cases h
        exact mapME_ne hf l _ he
      · cases h

theorem keyVarLevel_ne (t : Tbl) (k : Key) (e : Err) (h : keyVarLevel t k = .error e) : e ≠ .sched := by
  unfold keyVarLevel at h
  repeat' split at h
  all_goals first
    | (cases h; done)
    | (cases h; exact fun h => by cases h)

theorem mapToLevelE_ne {t : Tbl} {keys : List Key} {e : Err} (h : mapToLevelE t keys = .error e) :
    e ≠ .sched := by
  cases keys with
  | nil => cases h
  | cons k0 rest =>
    cases k0 with
    | lvl i =>
      simp only [mapToLevelE, Bool.not_false, if_true] at h
      split at h
      · cases h
      · cases h; exact fun h => by cases h
    | name nm =>
      simp only [mapToLevelE] at h
      split at h
      · split at h
        · cases h
        · cases h; exact fun h => by cases h
      · exact mapME_ne (keyVarLevel_ne t) _ _ h

theorem cofactorBody_sn (u : Int) (values : List (Key × Bool)) : SN (cofactorBody u values) := by
  intro s m
  unfold cofactorBody
  simp only [setS_tbl, setS_nvars]
  split
  · rfl
  rename_i lv _
  have hm' : (setS s m).mem u = m.mem u := rfl
  cases hm : m.mem u with
  | false =>
    simp only [hm', hm, Bool.not_false, if_true]
  | true =>
    simp only [hm', hm, Bool.not_true, Bool.false_eq_true, if_false]
    sn_next cofactorF_sn _ _ u _ _ s m, cofactorF _ _ u _ _ m => ⟨r, c⟩ m1

theorem cofactorBody_ns (u : Int) (values : List (Key × Bool)) : NS (cofactorBody u values) := by
  intro m
  unfold cofactorBody
  split
  · exact ns_triv (mapToLevelE_ne (by assumption))
  rename_i lv _
  dsimp only
  split
  · exact fun h => by cases h
  ns_next cofactorF_ns ((lv.zip (values.map (·.2))).reverse) (m.nvars + 2) u (sortNat (dedup lv)) {} m,
    cofactorF _ _ u _ _ m => ⟨r, c⟩ m1
  exact fun h => by cases h

end DD
