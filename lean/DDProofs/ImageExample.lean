/-
  DDProofs.ImageExample — a concrete manager with one primed/unprimed pair, used by the
  non-vacuity examples of C13 and by the refutation of the unrestricted `preimage` statement
  (finding F5).  Order `x` (level 0) < `xp` (level 1); nodes
    2 = `xp`, 3 = `x ↔ xp`, 4 = `x ∨ xp`, 5 = `x`
  so that `-3` = `x xor xp` and `-4` = `¬x ∧ ¬xp`.
-/
import DDProofs.ImageWrap
import DDProofs.GcExample
open Std

namespace DD

def imgM : Mgr :=
  { tbl := {
      succ := ((((({} : TreeMap Nat Nd).insert 2 ⟨1, -1, 1⟩).insert 3 ⟨0, -2, 2⟩).insert 4
        ⟨0, 2, 1⟩).insert 5 ⟨0, -1, 1⟩)
      vars := (({} : TreeMap String Nat).insert "x" 0).insert "xp" 1
      l2v := (({} : TreeMap Nat String).insert 0 "x").insert 1 "xp" }
    pred := ((((({} : TreeMap (List Int) Nat).insert [1, -1, 1] 2).insert [0, -2, 2] 3).insert
      [0, 2, 1] 4).insert [0, -1, 1] 5)
    ref := (((((({} : TreeMap Nat Nat).insert 1 6).insert 2 2).insert 3 1).insert 4 1).insert 5 1)
    minFree := 6 }

theorem imgM_nvars : imgM.tbl.nvars = 2 := by
  simp [imgM, Tbl.nvars, TreeMap.size_insert]

theorem imgM_nvars' : imgM.nvars = 2 := imgM_nvars

theorem imgM_node2 : imgM.tbl.node? 2 = some ⟨1, -1, 1⟩ := by decide
theorem imgM_node3 : imgM.tbl.node? 3 = some ⟨0, -2, 2⟩ := by decide
theorem imgM_node4 : imgM.tbl.node? 4 = some ⟨0, 2, 1⟩ := by decide
theorem imgM_node5 : imgM.tbl.node? 5 = some ⟨0, -1, 1⟩ := by decide

theorem imgM_nodes (u : Nat) (n : Nd) (h : imgM.tbl.node? u = some n) :
    (u = 2 ∧ n = ⟨1, -1, 1⟩) ∨ (u = 3 ∧ n = ⟨0, -2, 2⟩) ∨ (u = 4 ∧ n = ⟨0, 2, 1⟩) ∨
      (u = 5 ∧ n = ⟨0, -1, 1⟩) := by
  have hb : imgM.tbl.bound = 6 := by decide
  have := imgM.tbl.lt_bound h
  rw [hb] at this
  have h0 : imgM.tbl.node? 0 = none := by decide
  have h1 : imgM.tbl.node? 1 = none := by decide
  match u, this with
  | 0, _ => rw [h0] at h; cases h
  | 1, _ => rw [h1] at h; cases h
  | 2, _ => rw [imgM_node2] at h; cases h; exact Or.inl ⟨rfl, rfl⟩
  | 3, _ => rw [imgM_node3] at h; cases h; exact Or.inr (Or.inl ⟨rfl, rfl⟩)
  | 4, _ => rw [imgM_node4] at h; cases h; exact Or.inr (Or.inr (Or.inl ⟨rfl, rfl⟩))
  | 5, _ => rw [imgM_node5] at h; cases h; exact Or.inr (Or.inr (Or.inr ⟨rfl, rfl⟩))

theorem imgM_mem (u : Int)
    (h : u.natAbs = 1 ∨ u.natAbs = 2 ∨ u.natAbs = 3 ∨ u.natAbs = 4 ∨ u.natAbs = 5) :
    imgM.tbl.Mem u := by
  rcases h with h | h | h | h | h
  · exact Or.inl h
  · exact Or.inr (by rw [h, imgM_node2]; rfl)
  · exact Or.inr (by rw [h, imgM_node3]; rfl)
  · exact Or.inr (by rw [h, imgM_node4]; rfl)
  · exact Or.inr (by rw [h, imgM_node5]; rfl)

theorem imgM_levelOf2 : imgM.tbl.levelOf 2 = 1 := by
  simp [Tbl.levelOf, imgM_node2]
theorem imgM_levelOf3 : imgM.tbl.levelOf 3 = 0 := by
  simp [Tbl.levelOf, imgM_node3]
theorem imgM_levelOf4 : imgM.tbl.levelOf 4 = 0 := by
  simp [Tbl.levelOf, imgM_node4]
theorem imgM_levelOf1 : imgM.tbl.levelOf 1 = 2 := by
  simp [Tbl.levelOf, imgM_nvars]
theorem imgM_levelOfm1 : imgM.tbl.levelOf (-1) = 2 := by
  simp [Tbl.levelOf, imgM_nvars]

theorem imgM_inv : Inv imgM := by
  have hwf : WF imgM.tbl := by
    refine ⟨?_, ?_, ?_, ?_, ?_, ?_, ?_, ?_⟩ <;> intro u n h <;>
      rcases imgM_nodes u n h with ⟨rfl, rfl⟩ | ⟨rfl, rfl⟩ | ⟨rfl, rfl⟩ | ⟨rfl, rfl⟩
    all_goals first
      | (rw [imgM_nvars]; decide)
      | exact imgM_mem _ (by decide)
      | (simp only [Int.reduceNeg, levelOf_neg, imgM_levelOf1, imgM_levelOf2]; decide)
      | decide
  refine ⟨⟨hwf, ?_⟩, ?_, by decide, by decide, by decide, ?_, ?_⟩
  · intro u u' n h h'
    rcases imgM_nodes u n h with ⟨rfl, rfl⟩ | ⟨rfl, rfl⟩ | ⟨rfl, rfl⟩ | ⟨rfl, rfl⟩ <;>
      rcases imgM_nodes u' _ h' with ⟨rfl, h2⟩ | ⟨rfl, h2⟩ | ⟨rfl, h2⟩ | ⟨rfl, h2⟩ <;> first | rfl | cases h2
  · intro n u
    constructor
    · intro h
      have hk := getElem?_mem_keys _ _ _ h
      have hkeys : imgM.pred.keys = [[0, -2, 2], [0, -1, 1], [0, 2, 1], [1, -1, 1]] := by decide
      rw [hkeys] at hk
      simp only [List.mem_cons, List.not_mem_nil, or_false] at hk
      rcases hk with hk | hk | hk | hk
      · have : n = ⟨0, -2, 2⟩ := Nd.key_inj (by rw [hk]; rfl)
        subst this
        have : imgM.pred[(⟨0, -2, 2⟩ : Nd).key]? = some 3 := by decide
        rw [this] at h; cases h; decide
      · have : n = ⟨0, -1, 1⟩ := Nd.key_inj (by rw [hk]; rfl)
        subst this
        have : imgM.pred[(⟨0, -1, 1⟩ : Nd).key]? = some 5 := by decide
        rw [this] at h; cases h; decide
      · have : n = ⟨0, 2, 1⟩ := Nd.key_inj (by rw [hk]; rfl)
        subst this
        have : imgM.pred[(⟨0, 2, 1⟩ : Nd).key]? = some 4 := by decide
        rw [this] at h; cases h; decide
      · have : n = ⟨1, -1, 1⟩ := Nd.key_inj (by rw [hk]; rfl)
        subst this
        have : imgM.pred[(⟨1, -1, 1⟩ : Nd).key]? = some 2 := by decide
        rw [this] at h; cases h; decide
    · intro h
      rcases imgM_nodes u n h with ⟨rfl, rfl⟩ | ⟨rfl, rfl⟩ | ⟨rfl, rfl⟩ | ⟨rfl, rfl⟩ <;> decide
  · intro u n h
    rcases imgM_nodes u n h with ⟨rfl, rfl⟩ | ⟨rfl, rfl⟩ | ⟨rfl, rfl⟩ | ⟨rfl, rfl⟩ <;> decide
  · intro g u v w h
    have hk := getElem?_mem_keys _ _ _ h
    have hkeys : imgM.cache.keys = [] := by decide
    rw [hkeys] at hk; cases hk

theorem imgM_vars_x : imgM.tbl.vars["x"]? = some 0 := by
  simp only [imgM, TreeMap.getElem?_insert]
  simp
theorem imgM_vars_xp : imgM.tbl.vars["xp"]? = some 1 := by
  simp only [imgM, TreeMap.getElem?_insert]
  simp

theorem imgM_varsBij : VarsBij imgM.tbl := by
  have hv : ∀ (v : String) (i : Nat), imgM.tbl.vars[v]? = some i →
      (v = "x" ∧ i = 0) ∨ (v = "xp" ∧ i = 1) := by
    intro v i h
    simp only [imgM, TreeMap.getElem?_insert] at h
    split at h
    · next hc =>
      have : "xp" = v := by simpa using hc
      cases h; exact Or.inr ⟨this.symm, rfl⟩
    · split at h
      · next hc =>
        have : "x" = v := by simpa using hc
        cases h; exact Or.inl ⟨this.symm, rfl⟩
      · simp at h
  have hl : ∀ (i : Nat) (v : String), imgM.tbl.l2v[i]? = some v →
      (v = "x" ∧ i = 0) ∨ (v = "xp" ∧ i = 1) := by
    intro i v h
    simp only [imgM, TreeMap.getElem?_insert] at h
    split at h
    · next hc =>
      have : 1 = i := by simpa using hc
      cases h; exact Or.inr ⟨rfl, this.symm⟩
    · split at h
      · next hc =>
        have : 0 = i := by simpa using hc
        cases h; exact Or.inl ⟨rfl, this.symm⟩
      · simp at h
  have l0 : imgM.tbl.l2v[0]? = some "x" := by decide
  have l1 : imgM.tbl.l2v[1]? = some "xp" := by decide
  refine ⟨?_, ?_, ?_, ?_⟩
  · intro v i h
    rcases hv v i h with ⟨rfl, rfl⟩ | ⟨rfl, rfl⟩
    · exact l0
    · exact l1
  · intro i v h
    rcases hl i v h with ⟨rfl, rfl⟩ | ⟨rfl, rfl⟩
    · exact imgM_vars_x
    · exact imgM_vars_xp
  · intro v i h
    rw [imgM_nvars]
    rcases hv v i h with ⟨_, rfl⟩ | ⟨_, rfl⟩ <;> omega
  · intro i hi
    rw [imgM_nvars] at hi
    match i, hi with
    | 0, _ => exact ⟨"x", imgM_vars_x⟩
    | 1, _ => exact ⟨"xp", imgM_vars_xp⟩

/-! denotations of the three functions -/

theorem imgM_den2 (a : Asg) : den imgM.tbl 2 a = a 1 := by
  rw [den_node imgM.tbl imgM_inv.wf.toWF 2 _ a (by decide) imgM_node2, den_one, den_neg_one]
  cases a 1 <;> simp

theorem imgM_den3 (a : Asg) : den imgM.tbl 3 a = (a 0 == a 1) := by
  have hW := imgM_inv.wf.toWF
  rw [den_node imgM.tbl hW 3 _ a (by decide) imgM_node3]
  simp only [Int.reduceNeg]
  rw [den_neg imgM.tbl hW 2 a (imgM_mem _ (by decide)), imgM_den2]
  cases a 0 <;> cases a 1 <;> simp

theorem imgM_den5 (a : Asg) : den imgM.tbl 5 a = a 0 := by
  rw [den_node imgM.tbl imgM_inv.wf.toWF 5 _ a (by decide) imgM_node5, den_one, den_neg_one]
  cases a 0 <;> simp

theorem imgM_den4 (a : Asg) : den imgM.tbl 4 a = (a 0 || a 1) := by
  have hW := imgM_inv.wf.toWF
  rw [den_node imgM.tbl hW 4 _ a (by decide) imgM_node4, imgM_den2, den_one]
  cases a 0 <;> cases a 1 <;> simp

theorem imgM_contains_x : imgM.tbl.vars.contains "x" = true :=
  (vars_contains_iff _ _).mpr ⟨0, imgM_vars_x⟩
theorem imgM_contains_xp : imgM.tbl.vars.contains "xp" = true :=
  (vars_contains_iff _ _).mpr ⟨1, imgM_vars_xp⟩

theorem imgM_dep3_0 : dependsOn imgM.tbl 3 0 := by
  refine ⟨fun _ => false, ?_⟩
  rw [imgM_den3, imgM_den3]
  simp [upd]

theorem imgM_indep5_1 : ¬ dependsOn imgM.tbl 5 1 := by
  rintro ⟨a, h⟩
  apply h
  rw [imgM_den5, imgM_den5]
  simp [upd]

end DD
