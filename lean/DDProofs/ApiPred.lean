/-
  DDProofs.ApiPred — `BDD.update_predecessors()`: for every iteration order of `_succ`, afterwards
  `_pred` maps the triple of every stored node to that node and is otherwise what it was.  Hence,
  in a manager whose `_pred` has only LOST entries (the situation the class docstring describes:
  nodes were put into `_succ` without `find_or_add`), the call restores the invariant `Inv`.
  Entries that name something that is not a stored node are NOT removed (the loop only writes).
-/
import DD.ApiCore
import DDProofs.ApiLevels
import DDProofs.PredNodesOrder
open Std

namespace DD

/-- a step of the loop leaves the entries of other keys alone -/
theorem updPredStep_other (t : Tbl) (p : TreeMap (List Int) Nat) (u : Nat) (k : List Int)
    (h : u = 1 ∨ ∀ n, t.node? u = some n → n.key ≠ k) : (updPredStep t p u)[k]? = p[k]? := by
  unfold updPredStep
  by_cases h1 : u = 1
  · rw [if_pos h1]
  · rw [if_neg h1]
    cases hn : t.succ[u]? with
    | none => rfl
    | some n =>
      simp only
      rcases h with h | h
      · exact absurd h h1
      · have hne : n.key ≠ k := h n hn
        rw [TreeMap.getElem?_insert]
        have : compare n.key k ≠ .eq := by
          intro he; exact hne (LawfulEqOrd.eq_of_compare he)
        simp [this]

theorem updPredStep_self (t : Tbl) (p : TreeMap (List Int) Nat) (u : Nat) (n : Nd)
    (h1 : u ≠ 1) (hn : t.node? u = some n) : (updPredStep t p u)[n.key]? = some u := by
  unfold updPredStep
  rw [if_neg h1]
  have : t.succ[u]? = some n := hn
  rw [this]
  simp

/-- keys that are the triple of no listed node keep their entry -/
theorem foldl_updPred_other (t : Tbl) (k : List Int) :
    ∀ (ord : List Nat) (p : TreeMap (List Int) Nat),
      (∀ u ∈ ord, u = 1 ∨ ∀ n, t.node? u = some n → n.key ≠ k) →
      (ord.foldl (updPredStep t) p)[k]? = p[k]? := by
  intro ord
  induction ord with
  | nil => intro p _; rfl
  | cons u us ih =>
    intro p h
    rw [List.foldl_cons, ih _ (fun u' hu' => h u' (List.mem_cons_of_mem _ hu')),
      updPredStep_other t p u k (h u List.mem_cons_self)]

/-- the triple of a listed node ends up mapped to that node (no two stored nodes share a triple) -/
theorem foldl_updPred_self (t : Tbl) (hw : WFU t) (u : Nat) (n : Nd) (h1 : u ≠ 1)
    (hn : t.node? u = some n) :
    ∀ (ord : List Nat) (p : TreeMap (List Int) Nat), u ∈ ord →
      (ord.foldl (updPredStep t) p)[n.key]? = some u := by
  intro ord
  induction ord with
  | nil => intro p h; cases h
  | cons u0 us ih =>
    intro p h
    rw [List.foldl_cons]
    by_cases hmem : u ∈ us
    · exact ih _ hmem
    · have hu0 : u = u0 := by
        rcases List.mem_cons.mp h with h | h
        · exact h
        · exact absurd h hmem
      subst hu0
      rw [foldl_updPred_other t n.key us _ ?_, updPredStep_self t p u n h1 hn]
      intro u' hu'
      by_cases h1' : u' = 1
      · exact Or.inl h1'
      · right
        intro n' hn' hk
        have : n' = n := Nd.key_inj hk
        subst this
        have := hw.unique u' u n' hn' hn
        subst this
        exact hmem hu'

/-- `update_predecessors()`, any iteration order: returns normally, touches nothing but `_pred`;
afterwards the triple of EVERY stored node is mapped to that node, and a key that is the triple of
no stored node keeps whatever entry it had -/
theorem updatePredecessors_spec (m : Mgr) (hw : WFU m.tbl) (ord : List Nat)
    (ho : SuccOrder m.tbl ord) :
    ∃ p, updatePredecessors ord m = (.ok (), { m with pred := p }) ∧
      (∀ u n, m.tbl.node? u = some n → p[n.key]? = some u) ∧
      (∀ k, (∀ u n, m.tbl.node? u = some n → n.key ≠ k) → p[k]? = m.pred[k]?) := by
  refine ⟨ord.foldl (updPredStep m.tbl) m.pred, rfl, fun u n hn => ?_, fun k hk => ?_⟩
  · have h2 := hw.ge_two u n hn
    exact foldl_updPred_self m.tbl hw u n (by omega) hn ord m.pred
      ((ho.mem u).mpr (Or.inr (by simp [hn])))
  · exact foldl_updPred_other m.tbl k ord m.pred (fun u _ => Or.inr (fun n hn => hk u n hn))

/-- if moreover no entry of `_pred` was wrong before (`PredNodes`: every entry is the triple of
the stored node it names — e.g. `_pred` lost entries, or is empty), then afterwards `_pred` is
EXACTLY the inverse of `_succ` -/
theorem updatePredecessors_exact (m : Mgr) (hw : WFU m.tbl) (hp : PredNodes m) (ord : List Nat)
    (ho : SuccOrder m.tbl ord) :
    ∃ p, updatePredecessors ord m = (.ok (), { m with pred := p }) ∧
      ∀ (n : Nd) (u : Nat), p[n.key]? = some u ↔ m.tbl.node? u = some n := by
  obtain ⟨p, he, h1, h2⟩ := updatePredecessors_spec m hw ord ho
  refine ⟨p, he, fun n u => ⟨fun h => ?_, fun h => h1 u n h⟩⟩
  by_cases hex : ∃ u' n', m.tbl.node? u' = some n' ∧ n'.key = n.key
  · obtain ⟨u', n', hn', hk⟩ := hex
    have : n' = n := Nd.key_inj hk
    subst this
    rw [h1 u' n' hn'] at h
    cases h
    exact hn'
  · have hno : ∀ u' n', m.tbl.node? u' = some n' → n'.key ≠ n.key :=
      fun u' n' hn' hk => hex ⟨u', n', hn', hk⟩
    rw [h2 n.key hno] at h
    obtain ⟨n', hn', hk⟩ := hp n.key u h
    exact absurd hk (hno u n' hn')

/-- a manager that satisfies the invariant except that entries were REMOVED from `_pred` -/
structure InvLostPred (m : Mgr) : Prop where
  wf : WFU m.tbl
  pred : PredNodes m
  freeGe : 2 ≤ m.minFree
  free : m.tbl.node? m.minFree = none
  refOne : m.ref.contains 1 = true
  refDom : ∀ u n, m.tbl.node? u = some n → m.ref.contains u = true
  cache : ∀ g u v w, m.cache[iteKey g u v]? = some w → CacheEntryOK m.tbl g u v w

/-- `update_predecessors()` on such a manager restores the invariant: `Inv` holds afterwards
(and nothing but `_pred` changed) -/
theorem updatePredecessors_restores (m : Mgr) (h : InvLostPred m) (ord : List Nat)
    (ho : SuccOrder m.tbl ord) :
    ∃ p, updatePredecessors ord m = (.ok (), { m with pred := p }) ∧ Inv { m with pred := p } := by
  obtain ⟨p, he, hp⟩ := updatePredecessors_exact m h.wf h.pred ord ho
  exact ⟨p, he, ⟨h.wf, hp, h.freeGe, h.free, h.refOne, h.refDom, h.cache⟩⟩

/-- forgetting entries of `_pred` (`predDrop`, `predClear`) leads from a good manager whose
`_pred` has only triples as keys to such a manager -/
theorem predClear_lost (m : Mgr) (h : Inv m) : InvLostPred (predClear m).2 :=
  ⟨h.wf, fun k u hk => by
      have : (∅ : TreeMap (List Int) Nat)[k]? = some u := hk
      simp at this,
    h.freeGe, h.free, h.refOne, h.refDom, h.cache⟩

theorem predDrop_lost (m : Mgr) (h : Inv m) (hp : PredNodes m) (u : Nat) :
    InvLostPred (predDrop u m).2 := by
  unfold predDrop
  cases hn : m.tbl.succ[u]? with
  | none => exact ⟨h.wf, hp, h.freeGe, h.free, h.refOne, h.refDom, h.cache⟩
  | some n =>
    refine ⟨h.wf, fun k v hk => ?_, h.freeGe, h.free, h.refOne, h.refDom, h.cache⟩
    have hk' : (m.pred.erase n.key)[k]? = some v := hk
    rw [TreeMap.getElem?_erase] at hk'
    split at hk'
    · cases hk'
    · exact hp k v hk'

end DD
