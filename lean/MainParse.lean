import DD.ParseDriver
open DD

partial def loop (h : IO.FS.Stream) (out : IO.FS.Stream) (ms : Mgrs) : IO Unit := do
  let line ← h.getLine
  if line.isEmpty then return ()
  let line := if line.endsWith "\n" then (line.dropEnd 1).toString else line
  let (ms', o) := stepLineParse ms line
  out.putStrLn o
  loop h out ms'

def main : IO Unit := do
  let stdin ← IO.getStdin
  let stdout ← IO.getStdout
  loop stdin stdout {}
  stdout.flush
