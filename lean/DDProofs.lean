import DDProofs.Sem
import DDProofs.Canon
import DDProofs.Ext
import DDProofs.Inv
import DDProofs.FindOrAdd
import DDProofs.Ite
import DDProofs.ApplyProofs
import DDProofs.SatProofs
