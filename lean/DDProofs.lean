import DDProofs.Sem
import DDProofs.Canon
import DDProofs.Ext
import DDProofs.Inv
import DDProofs.RefCount
import DDProofs.GcStep
import DDProofs.GcLoop
import DDProofs.GcSpec
