import DDProofs.Sem
import DDProofs.Canon
import DDProofs.Ext
import DDProofs.Inv
import DDProofs.MddProofs
