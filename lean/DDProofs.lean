import DDProofs.Sem
import DDProofs.Canon
import DDProofs.Ext
import DDProofs.Inv
import DDProofs.AutoLedger
import DDProofs.AutoProofs
import DDProofs.AutoTemps
