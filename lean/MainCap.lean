import DD.CapacityDriver
open DD

partial def loop (h : IO.FS.Stream) (out : IO.FS.Stream) (s : CapSession) : IO Unit := do
  let line ← h.getLine
  if line.isEmpty then return ()
  let line := if line.endsWith "\n" then (line.dropEnd 1).toString else line
  let (s', o) := stepLineCap s line
  out.putStrLn o
  loop h out s'

def main : IO Unit := do
  let stdin ← IO.getStdin
  let stdout ← IO.getStdout
  loop stdin stdout {}
  stdout.flush
