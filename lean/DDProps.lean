import DDProps.Tables
import DDProps.C02
import DDProps.C01
import DDProps.C03
import DDProps.C04
import DDProps.C11
