import DDProps.Tables
import DDProps.C02
import DDProps.C01
import DDProps.C10
import DDProps.C18
import DDProps.C17
import DDProps.C14
import DDProps.C09
