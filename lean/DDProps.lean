import DDProps.Tables
import DDProps.C02
