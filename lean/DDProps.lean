import DDProps.Tables
import DDProps.C02
import DDProps.C01
import DDProps.C06
