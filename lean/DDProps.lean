import DDProps.Tables
import DDProps.C02
import DDProps.C15
