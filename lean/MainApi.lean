import DD.ApiDriver
open DD

/-- driver of slice "api": the rest of the public surface (`DD.ApiDriver`); every other line is
delegated to the MDD, parser and autoref drivers, hence to `DD.stepLine` -/
partial def loopApi (h : IO.FS.Stream) (out : IO.FS.Stream) (st : ApiSess) : IO Unit := do
  let line ← h.getLine
  if line.isEmpty then return ()
  let line := if line.endsWith "\n" then (line.dropEnd 1).toString else line
  let (st', o) := stepLineApi st line
  out.putStrLn o
  loopApi h out st'

def main : IO Unit := do
  let stdin ← IO.getStdin
  let stdout ← IO.getStdout
  loopApi stdin stdout {}
  stdout.flush
