import DD.Driver
import DD.Dddmp
import DD.DddmpText
open DD

/-- `<id>\tdddmp_text\t<hex>`: `dd.dddmp.load` on the text; `<id>\tdddmp_load\t<fields...>`: load the abstract file into manager `<id>`,
answer the (sorted) contents of `roots`; every other line goes to `DD.stepLine` -/
def stepLineDddmp (ms : Mgrs) (line : String) : Mgrs × String :=
  match line.splitOn "\t" with
  | id :: "dddmp_load" :: fields =>
    match parseNat? id, parseDddmpFile fields with
    | some id, some f =>
      match loadDddmp f with
      | .ok m => (ms.insert id m, "ok " ++ showInts (sortBy (· ≤ ·) m.roots))
      | .error e => (ms, "err " ++ toString e)
    | _, _ => (ms, "err BAD-LINE")
  | id :: "dddmp_text" :: [hex] =>
    -- the TEXT of the file (hexadecimal bytes): lexer, grammar, line dispatch, then the loader
    match parseNat? id, unhexAscii hex.toList with
    | some id, some text =>
      match loadDddmpText text with
      | .ok m => (ms.insert id m, "ok " ++ showInts (sortBy (· ≤ ·) m.roots))
      | .error e => (ms, "err " ++ toString e)
    | _, _ => (ms, "err BAD-LINE")
  | _ :: "dddmp_eval" :: names :: fields =>
    -- truth tables of `evalFile` (the specification) for every node line and root entry
    match parseDddmpFile fields with
    | some f =>
      let names := splitList ((names.drop 6).toString) ','
      let ns := f.nodes.map fun n => s!"{n.u}:{dddmpTruthTable f names n.u}"
      let rs := (f.rootids.getD []).map fun r => s!"r{r}:{dddmpTruthTable f names r}"
      -- … and of `evalFormat` (the DDDMP reading rule on the header lines; files without names: the loader's convention)
      let fs :=
          (f.nodes.map fun n => s!"F{n.u}:{dddmpFormatTable f names n.u}") ++
          ((f.rootids.getD []).map fun r => s!"Fr{r}:{dddmpFormatTable f names r}")
      (ms, "ok " ++ joinWith ";" (ns ++ rs ++ fs))
    | none => (ms, "err BAD-LINE")
  | _ => stepLine ms line

partial def loop (h : IO.FS.Stream) (out : IO.FS.Stream) (ms : Mgrs) : IO Unit := do
  let line ← h.getLine
  if line.isEmpty then return ()
  let line := if line.endsWith "\n" then (line.dropEnd 1).toString else line
  let (ms', o) := stepLineDddmp ms line
  out.putStrLn o
  loop h out ms'

def main : IO Unit := do
  let stdin ← IO.getStdin
  let stdout ← IO.getStdout
  loop stdin stdout {}
  stdout.flush
