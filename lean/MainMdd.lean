import DD.MddDriver
open DD

partial def loopMdd (h : IO.FS.Stream) (out : IO.FS.Stream) (st : MddSession) : IO Unit := do
  let line ← h.getLine
  if line.isEmpty then return ()
  let line := if line.endsWith "\n" then (line.dropEnd 1).toString else line
  let (st', o) := stepLineMdd st line
  out.putStrLn o
  loopMdd h out st'

def main : IO Unit := do
  let stdin ← IO.getStdin
  let stdout ← IO.getStdout
  loopMdd stdin stdout {}
  stdout.flush
